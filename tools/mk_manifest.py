#!/usr/bin/env python3
"""Writes /verif/MANIFEST.json from the table below (single source of truth for claims)."""
import json
import os

VERIF = os.path.dirname(os.path.dirname(os.path.abspath(__file__)))
units = json.load(open(os.path.join(VERIF, 'specs', 'units.json')))['units']

TECH = 'contract-based deductive verification (Verus SMT on mechanically extracted real functions; Kani/CBMC contracts and bounded harnesses on the real crate)'

CLAIMS = {
    'C02': dict(
        text='verify / verify_rln_proof / verify_with_roots carry postconditions taken from the property: Ok(true) only if the Groth16 check passed for exactly '
             'the carried values in circuit order, carried x == hash_to_field(signal bytes [296..296+len]), carried root == tree root / member of the non-empty root set. '
             'Verus discharges them on the real bodies, so dropping or weakening a check fails a named clause.',
        note='Assumed (uninterpreted): ark-groth16 verification (groth16_ok), proof point decoding, Keccak. The tree is abstract in unit verify_api; the contract it assumes of the tree (`root()` is the ideal root of the current leaves) is discharged for the three backends by the clause root-is-ideal-root of units full_tree / optimal_tree / pm_adapter, which this check also runs (seed C02_A5: a stale cached root in the pmtree adapter). '
             'RLN struct re-declared with the two fields these functions read.',
        design='DESIGN.md §4 C02'),
    'C03': dict(
        text='Nullifier independence of the signal, exact recovery of the secret from two shares (proved from nat-mod-P arithmetic), error instead of crash on degenerate shares, '
             'no output across different external nullifiers: postconditions / lemmas over the contracts of proof_values_from_witness, compute_id_secret, recover_id_secret.',
        note='Field division axiom (b != 0 ==> (a/b)*b == a) and primality of P assumed; "different nullifier" lemma is stated under the NAMED assumption that Poseidon is injective.',
        design='DESIGN.md §4 C03'),
    'C04': dict(
        text='proof_values_from_witness is proved to return exactly y = s + x*H(s,e,m), nullifier = H(H(s,e,m)), root = fold of H(H(s),limit) along the path (bit 0 = left child), '
             'x and e carried through; compute_tree_root by a loop invariant over any path length.',
        note='Poseidon is an uninterpreted function; clause 2 of the statement (equality with the circuit outputs) needs the semantics of graph.bin and is NOT claimed.',
        design='DESIGN.md §4 C04'),
    'C06': dict(
        text='Every public operation of the three tree backends carries requires wf / ensures wf && view == ideal transition; '
             'root, subtree roots and leaves are proved equal to the ideal pairwise-hashed array for every depth and every history '
             '(inductive representation invariant). Verus discharges the obligations on the real function bodies (update_nodes, update_hashes, '
             'recalculate_from, get_subtree_root, proof loops included).',
        note='Hash is an uninterpreted function. Assumed: std specs listed in evidence; FullMerkleTree::set_range / new bodies are assumed in Verus and checked by Kani on the real crate at '
             'bounded depth (reported as bounded); OptimalMerkleTree::set_range body (enumerate over a generic iterator) is assumed in Verus and checked by Kani (unit optimal_tree_kani, bounded, std HashMap replaced by a '
             'declared association-list stand-in in the Kani scratch copy); the persistent backend is verified against an assumed contract of the pmtree dependency and re-checked as compiled against stub pmtree / sled crates (pm_adapter_kani, bounded). Known finding: PmTree remove_indices_and_set_leaves (pinned by an existing test).',
        design='DESIGN.md §4 C06'),
    'C07': dict(
        text='proof(i) is proved to return exactly the ideal path (one sibling per level, LSB-first direction bits) for every wf tree and position, verify() to accept iff the path folds to the ideal root; '
             'completeness (fold of the ideal path is the root) and position decoding are machine-checked lemmas over the ideal tree.',
        note='Hash uninterpreted; fold/map based proof accessors are assumed in Verus and Kani-checked at bounded path length. Binding (other leaf / altered sibling / altered bit rejected) is machine-checked under the NAMED idealisation that the 2-to-1 hash is injective.',
        design='DESIGN.md §4 C07'),
    'C08': dict(
        text='override_range of each backend carries the ideal contract: accepted batch == reset every removed position then write the leaves, every other leaf / flag / mark unchanged; rejected batch changes nothing; no panic. '
             'Proved by Verus on the (fixed) real bodies of Full and Optimal and on the adapter dispatch and remove_indices.',
        note='As C06. Known findings (not fixable without editing a pinned test): PmTree::remove_indices_and_set_leaves (combined remove + write batches).',
        design='DESIGN.md §4 C08'),
    'C09': dict(
        text='Poseidon::hash is proved equal to the reference permutation (recursive spec: round constants, full/partial S-box schedule, MDS mix) for every field and every well-shaped parameter set, '
             'Err exactly for empty input / missing parameters; ROUND_PARAMS equals the circomlib table; hash_to_field == LE(Keccak256(bytes)) mod P.',
        note='Keccak, field operations and the ark/sbox closure bodies are assumed by contract; that the Grain-LFSR generator reproduces circomlib constants and cross-thread purity are NOT decided.',
        design='DESIGN.md §4 C09'),
    'C10': dict(
        text='Every serialiser has an exact layout postcondition over byte sequences and every decoder/encoder pair a machine-checked round-trip lemma for all values and lengths; '
             'deserialize_witness is Ok iff the declared lengths fit and all bytes are consumed.',
        note='BigUint / Fr conversions assumed by contract (LE value, mod P); normalize_usize and bytes_le_to_vec_usize are Kani-checked (the former completely, the latter bounded). JSON codec (serde) not decided.',
        design='DESIGN.md §4 C10'),
    'C12': dict(
        text='With requires true, Verus discharges every slice bound, unwrap and arithmetic side condition of the proving-request decoders and witness helpers, and proves Ok ==> message id < limit and < 2^16, '
             'equal path lengths, binary direction values, inputs placed at declared offsets (errors instead of panics for malformed requests).',
        note='"Ok ==> the proof verifies" additionally needs Groth16 completeness over the bundled key and graph (C01, not applicable): the claim is no success on unsatisfiable requests and no crash in the functions under contract. '
             'inputs_for_witness_calculation (for_each closure) and calc_witness glue are assumed.',
        design='DESIGN.md §4 C12'),
    'C13': dict(
        text='verify, verify_rln_proof, verify_with_roots, recover_id_secret, get_proof and the byte decoders are verified with requires true: no slice / overflow / unwrap panic on any byte string; '
             'Ok(true) implies every 32-byte public value is canonically encoded (< P).',
        note='Point decoding / Groth16 assumed total; Vec<u8> != [u8] comparison assumed by contract.',
        design='DESIGN.md §4 C13'),
    'C14': dict(
        text='keygen / extended_keygen / seeded variants are proved to return commitment == H(secret) and secret == H(trapdoor, nullifier); seeded variants equal a spec function of the seed bytes alone; '
             'exporters write the canonical 32-byte encodings in order.',
        note='Keccak, ChaCha20 and Fr::rand are uninterpreted; distinctness of distinct seeds, the documented reference identities and thread independence are NOT decided.',
        design='DESIGN.md §4 C14'),
    'C15': dict(
        text='Every mutator of every backend has a postcondition on the written-flags view (write => 1, removal => 0, others unchanged, nothing marked above the high-water mark); '
             'proved by Verus on the real bodies; get_empty_leaves_indices == ascending unset positions below the mark (Kani, bounded).',
        note='get_empty_leaves_indices iterator chain assumed in Verus and Kani-checked on the compiled code for all three backends (bounded: capacity 4 / 8). Known finding: PmTree::new zeroes the flags when it reopens an existing database (clauses reopen-*).',
        design='DESIGN.md §4 C15'),
    'C16': dict(
        text='PARTIAL, function level: (1) the storage adapter utils::pm_tree::SledDB (put, put_batch, get, close, load) is checked by Kani as compiled '
             'against an engine stand-in with a SYMBOLIC fault plan: an engine write / flush / read / open failure is always an Err, Ok is returned only when exactly the given '
             'key and value reached the engine / the engine was flushed, load succeeds exactly on an existing database; (2) the persistent-tree adapter PmTree is verified by Verus: '
             'no mutator acknowledges (Ok) unless the tree dependency acknowledged and the stated leaf / mark effect happened (a swallowed storage error fails the postcondition), '
             'set_metadata stores before it caches and changes nothing on failure, metadata() returns what the database holds, close_db_connection is Ok iff the flush succeeded, '
             'PmTree::new on an existing database yields a well-formed adapter (reopen-is-wf).',
        note='NOT decided (no contract within reach): durability of sled itself (what survives a crash or a failed flush), the internals of the external pmtree crate (which keys it writes, '
             'its load path), every-history equality of root / leaves across a real close + reopen, PmtreeConfig JSON parsing (serde_json). Assumed: the engine stand-in kani/stubs/sled '
             '(fault plan, atomic batch), the pmtree contract of unit pm_adapter (Err of an in-range mutator = storage failure), SledDB as seen by the adapter (meta_s / flushed_s). '
             'put_batch is bounded (batches of 0 / 1 entries, std HashMap); SledDB::new / new_with_tries is NOT checked (out of reach of CBMC: nested to_string / format!). Known finding: reopen-restores-written-flags is C15.',
        design='DESIGN.md §4 C16'),
    'C11': dict(
        text='PARTIAL (per-call relation between the two surfaces). The whole of rln/src/ffi.rs (glue macros, ProcessArg, Buffer conversions, all 30 extern "C" functions) is compiled byte for byte '
             'against a recording stand-in of the Rust API generated from the signatures of public.rs (callee contract: any Ok/Err, any bytes written, any new context state). For every entry point Kani '
             'discharges: exactly the corresponding API call, on the given context, with exactly the caller\'s arguments; true iff that call returned Ok; the output Buffer designates exactly the bytes '
             'the API wrote and they are readable; verdicts agree; seq_atomic_operation starts at the current leaf count; the context is left exactly as the API left it; no crash or invalid pointer use in the glue.',
        note='Bounded in the DATA only (input buffers <= 6 symbolic bytes with symbolic length, <= 3 bytes written): the glue is loop free and never inspects the bytes. NOT decided: that a failing Rust API call leaves '
             'the context unchanged (a property of the API bodies, partly under C08 / C06), behaviour for invalid pointers, the stateless / wasm variants, ownership of the leaked output allocation. '
             'Sequences of calls follow by induction because the glue holds no state of its own.',
        design='DESIGN.md §4 C11'),
    'C19': dict(
        text='Operator helpers are loop-free / width-bounded: Kani harnesses over full-domain operands are complete proofs of circom semantics, canonical results and no panic.',
        note='Fr helpers run over a canonical-integer model of Fr extracted mechanically each run; mul/inv/pow of ruint and ark-ff are trusted.',
        design='DESIGN.md §4 C19'),
    'C20': dict(
        text='evaluate is proved to return interp(nodes, inputs, output) for every well-formed graph of any size (loop invariant values[j] == interp(j)); populate_inputs places every named vector at its declared '
             'offset independent of map order; node / operator storage conversions round-trip for every node.',
        note='Operator semantics are uninterpreted in unit graph_eval and decided by the Kani unit graph_ops_fr (eval_fr and its helpers, also run for this property); prost framing, WriteBackReader and calc_witness glue not decided. Known finding: `as u32` index truncation for graphs above 2^32 nodes.',
        design='DESIGN.md §4 C20'),
}

NOT_APPLICABLE = {
    'C01': 'End-to-end Groth16 completeness over the bundled 13 MB key and witness graph is a fact about data and pairing arithmetic; no function contract within reach of Verus/Kani states it (function-level pieces are decided under C02/C04/C07/C10).',
    'C05': 'The oracle is an external reference generator (rln.wasm) applied to an 11 940-line data file, not a contract on a function of /repo; determinism/order-independence are decided for every graph under C20.',
    'C17': 'Equality of two parsed key files through two deserialisers and acceptance across separately built feature sets are properties of data files and of several builds, not of one function; the tree half is the C06/C07 corollary.',
    'C18': 'Thread schedules: Kani has no thread support and Verus would require re-expressing rayon/Lazy/sled in its permission types, i.e. a different program.',
}
PENDING = 'claimed in DESIGN.md; contracts for this property are not yet wired into ./check in this commit'

ALL = ['C%02d' % i for i in range(1, 21)]

checks = []
na = []
for p in ALL:
    served = [u for u, c in units.items() if p in c['properties']]
    if p in CLAIMS and served:
        c = CLAIMS[p]
        checks.append({
            'property_id': p,
            'quick_cmd': './check %s --tier quick' % p,
            'thorough_cmd': './check %s --tier thorough' % p,
            'evidence_file': 'evidence/%s.json' % p,
            'replay_cmd_template': './check --replay {path}',
            'engine': 'contracts',
            'level_claimed': {'category': 'proof', 'text': c['text'], 'design_ref': c['design']},
            'level_note': c['note'] + ' Units: ' + ', '.join(served) + '.',
            'technique': TECH,
        })
    elif p in NOT_APPLICABLE:
        na.append({'property_id': p, 'reason': NOT_APPLICABLE[p]})
    else:
        na.append({'property_id': p, 'reason': PENDING})

manifest = {
    'version': 1,
    'setup_cmd': 'python3 tools/selftest.py',
    'hooks': {
        'guard': 'vacp2p_zerokit_verif',
        'enable': 'none needed: contracts live in /verif and are spliced into scratch copies of /repo sources on every run',
        'baseline_off_cmd': 'cd /repo && cargo test --workspace --no-fail-fast --offline',
        'source_commits': [],
        'add_only': True,
    },
    'engines': [
        {'name': 'contracts', 'path': 'check', 'serves_properties': [c['property_id'] for c in checks],
         'kind_free_text': 'tools/gen.py extracts the real functions byte-for-byte and splices contracts from specs/*.rs.in; Verus discharges; Kani/CBMC checks assumed contracts on the real crate'},
    ],
    'checks': checks,
    'not_applicable': na,
    'notes': 'Exit 2 (no VIOLATION line) means undecided: lost anchor, generated text no longer compiles, rlimit/timeout, or vacuity canary verified.',
}
json.dump(manifest, open(os.path.join(VERIF, 'MANIFEST.json'), 'w'), indent=1)
print('MANIFEST.json written: %d checks, %d not applicable' % (len(checks), len(na)))
