#!/usr/bin/env python3
"""Writes /verif/MANIFEST.json from the table below (single source of truth for claims)."""
import json
import os

VERIF = os.path.dirname(os.path.dirname(os.path.abspath(__file__)))
units = json.load(open(os.path.join(VERIF, 'specs', 'units.json')))['units']

TECH = 'contract-based deductive verification (Verus SMT on mechanically extracted real functions; Kani/CBMC contracts and bounded harnesses on the real crate)'

CLAIMS = {
    'C06': dict(
        text='Every public operation of the tree backends carries requires wf / ensures wf && view == ideal transition; '
             'root, subtree roots and leaves are proved equal to the ideal pairwise-hashed array for every depth and every history '
             '(induction over histories = inductive representation invariant). Verus discharges the obligations on the real function bodies.',
        note='Hash is an uninterpreted function. Assumed: std specs listed in evidence (next_power_of_two, trailing_zeros, max, once, into_iter totality); '
             'FullMerkleTree::set_range body (for_each closure) is assumed in Verus and checked by Kani on the real crate at bounded depth (reported as bounded).',
        design='DESIGN.md §4 C06'),
    'C07': dict(
        text='proof(i) is proved to return exactly the ideal path (one sibling per level, LSB-first direction bits) for every wf tree and position; '
             'completeness / binding follow as lemmas over fold_path under the named injectivity idealisation.',
        note='Hash uninterpreted; binding lemmas assume spec_hash2 injective (named assumption). fold/map based proof accessors: see evidence.',
        design='DESIGN.md §4 C07'),
    'C15': dict(
        text='Every mutator has a postcondition on the written-flags view (write => 1, removal => 0, others unchanged); proved by Verus on the real bodies.',
        note='get_empty_leaves_indices iterator chain: see evidence (assumed + Kani bounded).',
        design='DESIGN.md §4 C15'),
}

NOT_APPLICABLE = {
    'C01': 'End-to-end Groth16 completeness over the bundled 13 MB key and witness graph is a fact about data and pairing arithmetic; no function contract within reach of Verus/Kani states it (function-level pieces are decided under C02/C04/C07/C10).',
    'C05': 'The oracle is an external reference generator (rln.wasm) applied to an 11 940-line data file, not a contract on a function of /repo; determinism/order-independence are decided for every graph under C20.',
    'C11': 'macro_rules!-generated unsafe raw-pointer FFI glue and a lock-step relation between two API surfaces over call histories: relational two-run property, raw-pointer ownership outside Verus without rewriting, Kani contracts need Arbitrary for *mut RLN.',
    'C16': 'Needs the semantics of sled (flush, recovery) and failure injection at the storage boundary: behaviour of an external crate over crash points, not expressible as contracts over /repo functions.',
    'C17': 'Equality of two parsed key files through two deserialisers and acceptance across separately built feature sets are properties of data files and of several builds, not of one function; the tree half is the C06/C07 corollary.',
    'C18': 'Thread schedules: Kani has no thread support and Verus would require re-expressing rayon/Lazy/sled in its permission types, i.e. a different program.',
}
PENDING = 'claimed in DESIGN.md; contracts for this property are not yet wired into ./check in this commit'

ALL = ['C%02d' % i for i in range(1, 21)]

checks = []
na = []
for p in ALL:
    served = [u for u, c in units.items() if p in c['properties']]
    if p in CLAIMS and served:
        c = CLAIMS[p]
        checks.append({
            'property_id': p,
            'quick_cmd': './check %s --tier quick' % p,
            'thorough_cmd': './check %s --tier thorough' % p,
            'evidence_file': 'evidence/%s.json' % p,
            'replay_cmd_template': './check --replay {path}',
            'engine': 'contracts',
            'level_claimed': {'category': 'proof', 'text': c['text'], 'design_ref': c['design']},
            'level_note': c['note'] + ' Units: ' + ', '.join(served) + '.',
            'technique': TECH,
        })
    elif p in NOT_APPLICABLE:
        na.append({'property_id': p, 'reason': NOT_APPLICABLE[p]})
    else:
        na.append({'property_id': p, 'reason': PENDING})

manifest = {
    'version': 1,
    'setup_cmd': 'python3 tools/selftest.py',
    'hooks': {
        'guard': 'vacp2p_zerokit_verif',
        'enable': 'none needed: contracts live in /verif and are spliced into scratch copies of /repo sources on every run',
        'baseline_off_cmd': 'cd /repo && cargo test --workspace --no-fail-fast --offline',
        'source_commits': [],
        'add_only': True,
    },
    'engines': [
        {'name': 'contracts', 'path': 'check', 'serves_properties': [c['property_id'] for c in checks],
         'kind_free_text': 'tools/gen.py extracts the real functions byte-for-byte and splices contracts from specs/*.rs.in; Verus discharges; Kani/CBMC checks assumed contracts on the real crate'},
    ],
    'checks': checks,
    'not_applicable': na,
    'notes': 'Exit 2 (no VIOLATION line) means undecided: lost anchor, generated text no longer compiles, rlimit/timeout, or vacuity canary verified.',
}
json.dump(manifest, open(os.path.join(VERIF, 'MANIFEST.json'), 'w'), indent=1)
print('MANIFEST.json written: %d checks, %d not applicable' % (len(checks), len(na)))
