#!/usr/bin/env python3
"""Template processor: builds the single-file Verus input of a unit from /repo's working tree.

A template (specs/<unit>.rs.in) is a Verus file in which the real functions are *not* written
out.  Instead, directive blocks tell this tool which item of which file of /repo to copy, byte for
byte, and which contract text to splice in (insertions only):

    //@fn <relpath> <Owner>::<name>|<name> [#k] [sig~<substring>]
    //@tags C06 C07            property tags of every obligation of this function
    //@name <ident>            rename the function in the generated file (two cfg variants etc.)
    //@ret r                   '-> T'  becomes  '-> (r: T)'   (names the result; insertion only)
    //@subst A => B            declared token substitution inside the copied text (type aliases)
    //@attr external_body      body is kept but not verified: the contract is an ASSUMPTION
    //@pin <sha256-prefix>     (with external_body and no Kani check) the assumption was stated for exactly this text of
                               the function; a different text makes the unit undecided instead of silently still assumed
    //@contract                lines inserted between signature and body
    //@bodystart               lines inserted right after the body's '{'
    //@loop <n>                lines inserted before the '{' of the n-th loop (textual order)
    //@loopbody <n>            lines inserted right after the '{' of the n-th loop (proof hints that must precede every
                               statement of the body, so that reordering / splitting statements cannot move code above them)
    //@before <anchor>[ ##k]   lines inserted before the k-th occurrence of the anchor text in the body
    //@after <anchor>[ ##k]    lines inserted after  the k-th occurrence of the anchor text in the body
    //@afterstmt <anchor>[ ##k] lines inserted after the ';' ending the statement that starts at the anchor
    //@end

    //@item <relpath> <struct|enum|const|static|type> <Name> [#k]   copies one item (attributes and doc
                               comments dropped; '//@subst' lines directly below apply to it)
    //@region <name> <tags..>  ...  //@endregion     tags a hand-written region (lemmas) for error mapping

Inside spliced lines a trailing comment  '//# <clause-name> [tags..]'  names the clause and may
override the property tags.

The tool checks (and fails with exit 2 semantics = GenError) that
  * every item / anchor / loop ordinal is found exactly as requested,
  * removing the inserted text from the generated function gives back the original text with only the
    declared substitutions applied.
It returns, for every generated line, which function / block / clause it belongs to, so that verifier
diagnostics can be mapped to named obligations.
"""
import hashlib
import json
import os
import re
import sys

sys.path.insert(0, os.path.dirname(os.path.abspath(__file__)))
import rustscan as R


class GenError(Exception):
    pass


DIRECTIVE = re.compile(r'^\s*//@(\w+)\s*(.*)$')
CLAUSE_TAG = re.compile(r'//#\s*([A-Za-z0-9_\-\[\]\.]+)((?:\s+C\d\d)*)\s*$')


class Block:
    def __init__(self, kind, arg):
        self.kind, self.arg, self.lines = kind, arg, []


class FnSpec:
    def __init__(self, arg, lineno):
        self.arg = arg
        self.lineno = lineno
        self.tags = []
        self.rename = None
        self.ret = None
        self.substs = []
        self.attrs = []
        self.pin = None
        self.blocks = []


_file_cache = {}


def load(repo, rel):
    key = (repo, rel)
    if key not in _file_cache:
        p = os.path.join(repo, rel)
        if not os.path.exists(p):
            raise GenError('lost anchor: file %s not found' % rel)
        src = open(p, encoding='utf-8').read()
        m = R.mask(src)
        items = R.scan_items(src, m)
        _file_cache[key] = (src, m, items)
    return _file_cache[key]


def select_item(repo, rel, kinds, sel, ordinal=None, sigsub=None):
    src, m, items = load(repo, rel)
    if '::' in sel:
        owner, name = sel.split('::', 1)
    else:
        owner, name = None, sel
    cands = [it for it in items if it.kind in kinds and it.name == name and
             ((owner is None and it.owner is None) or (owner is not None and it.owner == owner))]
    if sigsub:
        cands = [it for it in cands if sigsub in src[it.sig_start:(it.body_open if it.body_open > 0 else it.end)]]
    if ordinal is not None:
        if ordinal < 1 or ordinal > len(cands):
            raise GenError('lost anchor: %s %s #%d not found in %s (%d candidates)' % (kinds, sel, ordinal, rel, len(cands)))
        cands = [cands[ordinal - 1]]
    if len(cands) != 1:
        raise GenError('lost anchor: %s %s in %s: %d candidates' % (kinds, sel, rel, len(cands)))
    return src, m, cands[0]


def parse_sel(arg):
    toks = arg.split()
    rel, sel = toks[0], toks[1]
    ordinal, sigsub = None, None
    for t in toks[2:]:
        if t.startswith('#'):
            ordinal = int(t[1:])
    mm = re.search(r'sig~(.+)$', arg)
    if mm:
        sigsub = mm.group(1).strip()
    return rel, sel, ordinal, sigsub


def apply_substs(text, substs):
    """Declared token substitutions.  Returns new text and a map new-offset -> old-offset is not
    needed because all insert offsets are computed on the substituted text."""
    for a, b in substs:
        text = text.replace(a, b)
    return text


def strip_attrs_and_docs(text):
    """Drop '#[...]' attribute lines and '///' doc comment lines that appear at line starts *inside* an
    item (struct fields).  Plain '//' comments are kept."""
    out = []
    skip_attr_depth = 0
    for line in text.split('\n'):
        s = line.strip()
        if skip_attr_depth > 0:
            skip_attr_depth += s.count('[') - s.count(']')
            continue
        if s.startswith('///') or s.startswith('//!'):
            continue
        if s.startswith('#['):
            d = s.count('[') - s.count(']')
            if d > 0:
                skip_attr_depth = d
            continue
        out.append(line)
    return '\n'.join(out)


def gen_fn(repo, fs, unit):
    rel, sel, ordinal, sigsub = parse_sel(fs.arg)
    src, m, it = select_item(repo, rel, ('fn',), sel, ordinal, sigsub)
    if it.body_open < 0:
        raise GenError('lost anchor: %s has no body' % sel)
    orig = src[it.sig_start:it.end]
    sha = hashlib.sha256(orig.encode()).hexdigest()
    if fs.pin and not sha.startswith(fs.pin):
        raise GenError('assumed contract of %s is pinned to another text of the function (pinned %s, found %s): the body changed and nothing checks it' % (sel, fs.pin, sha[:16]))
    text = apply_substs(orig, fs.substs)
    expected_after_unsplice = text
    mt = R.mask(text)
    body_open = R.find_body_open(mt, 0)
    body_close = R.match_brace(mt, body_open)
    if body_close != len(text) - 1:
        raise GenError('scanner: body does not end the item for %s' % sel)
    inserts = []  # (offset, order, text, blockname)
    order = 0
    # function rename
    if fs.rename:
        mm = re.search(r'(?<![A-Za-z0-9_])fn\s+(' + re.escape(it.name) + r')(?![A-Za-z0-9_])', mt)
        if not mm:
            raise GenError('rename: fn name not found')
        # rename is a substitution, record it
        text = text[:mm.start(1)] + fs.rename + text[mm.end(1):]
        expected_after_unsplice = text
        mt = R.mask(text)
        body_open = R.find_body_open(mt, 0)
        body_close = R.match_brace(mt, body_open)
    # result naming
    if fs.ret:
        # find '->' at paren depth 0 in the signature
        depth = 0
        pos = -1
        k = 0
        while k < body_open:
            ch = mt[k]
            if ch in '([':
                depth += 1
            elif ch in ')]':
                depth -= 1
            elif ch == '-' and mt[k + 1] == '>' and depth == 0:
                pos = k
                break
            k += 1
        if pos < 0:
            raise GenError('ret: no return type in signature of %s' % sel)
        ty_start = pos + 2
        while text[ty_start] in ' \n\t':
            ty_start += 1
        # type ends at 'where' keyword or at body_open
        wm = re.search(r'(?<![A-Za-z0-9_])where(?![A-Za-z0-9_])', mt[ty_start:body_open])
        ty_end = ty_start + wm.start() if wm else body_open
        while text[ty_end - 1] in ' \n\t':
            ty_end -= 1
        inserts.append((ty_start, order, '(%s: ' % fs.ret, 'ret')); order += 1
        inserts.append((ty_end, order, ')', 'ret')); order += 1
    loops = R.find_loops(mt, body_open + 1, body_close)
    anchors_used = {}
    for b in fs.blocks:
        payload = '\n'.join(b.lines)
        if b.kind == 'contract':
            off = body_open
            # keep the where clause before the contract: insert right before '{'
            inserts.append((off, order, '\n' + payload + '\n', 'contract')); order += 1
        elif b.kind == 'bodystart':
            inserts.append((body_open + 1, order, '\n' + payload + '\n', 'bodystart')); order += 1
        elif b.kind == 'loop':
            n = int(b.arg.split()[0])
            if n < 1 or n > len(loops):
                raise GenError('lost anchor: loop %d of %s (function has %d loops)' % (n, sel, len(loops)))
            inserts.append((loops[n - 1][1], order, '\n' + payload + '\n', 'loop%d' % n)); order += 1
        elif b.kind == 'loopbody':
            n = int(b.arg.split()[0])
            if n < 1 or n > len(loops):
                raise GenError('lost anchor: loop %d of %s (function has %d loops)' % (n, sel, len(loops)))
            inserts.append((loops[n - 1][1] + 1, order, '\n' + payload + '\n', 'loopbody%d' % n)); order += 1
        elif b.kind in ('before', 'after', 'afterstmt'):
            arg = b.arg
            k = 1
            mm = re.search(r'\s##(\d+)\s*$', arg)
            if mm:
                k = int(mm.group(1))
                arg = arg[:mm.start()]
            arg = arg.strip()
            if arg.startswith('`') and arg.endswith('`'):
                arg = arg[1:-1]
            pos = body_open
            found = -1
            for _ in range(k):
                found = text.find(arg, pos + 1, body_close)
                if found < 0:
                    break
                pos = found
            if found < 0:
                raise GenError('lost anchor: %s: anchor `%s` (occurrence %d) not found' % (sel, arg, k))
            if k == 1 and not mm:
                # require uniqueness when no ordinal is given
                if text.find(arg, found + 1, body_close) >= 0:
                    raise GenError('ambiguous anchor: %s: `%s` occurs more than once; add ##k' % (sel, arg))
            if b.kind == 'afterstmt':
                # end of the statement that starts at the anchor: next ';' at nesting depth 0
                depth = 0
                k2 = found
                while k2 < body_close:
                    ch = mt[k2]
                    if ch in '([{':
                        depth += 1
                    elif ch in ')]}':
                        depth -= 1
                        if depth < 0:
                            raise GenError('lost anchor: %s: statement after `%s` has no terminating ;' % (sel, arg))
                    elif ch == ';' and depth == 0:
                        break
                    k2 += 1
                off = k2 + 1
            else:
                off = found if b.kind == 'before' else found + len(arg)
            inserts.append((off, order, ('\n' if b.kind != 'before' else '') + payload + '\n', '%s:%s' % (b.kind, arg[:30]))); order += 1
        elif b.kind == 'inline_before' or b.kind == 'inline_after':
            raise GenError('unsupported')
        else:
            raise GenError('unknown block kind %s' % b.kind)
    # assemble
    inserts.sort(key=lambda t: (t[0], t[1]))
    out = []
    segs = []  # (generated_text, blockname or None)
    last = 0
    for off, _, payload, bname in inserts:
        segs.append((text[last:off], None))
        segs.append((payload, bname))
        last = off
    segs.append((text[last:], None))
    # self-check: removing inserted segments gives the (substituted) original
    if ''.join(s for s, b in segs if b is None) != expected_after_unsplice:
        raise GenError('internal: unsplice check failed for %s' % sel)
    prefix = ''
    for a in fs.attrs:
        prefix += '#[verifier::%s]\n' % a
    segs.insert(0, (prefix, 'attr'))
    info = {
        'unit': unit, 'file': rel, 'item': sel, 'sha256': sha, 'tags': fs.tags,
        'external_body': 'external_body' in fs.attrs,
        'substitutions': ['%s => %s' % s for s in fs.substs] + (['fn name => %s' % fs.rename] if fs.rename else []),
        'src_line': src.count('\n', 0, it.sig_start) + 1,
        'n_loops': len(loops),
        'blocks': [b.kind + ((' ' + b.arg) if b.arg else '') for b in fs.blocks],
    }
    return segs, info


def generate(repo, template_path, unit):
    """Returns (generated_text, linemap, fninfos, regions).
    linemap[i] (0-based generated line) = dict(fn=..., block=..., clause=..., tags=[...]) or None."""
    tl = []
    def read_tpl(p, depth=0):
        if depth > 5:
            raise GenError('include depth')
        for ln in open(p, encoding='utf-8').read().split('\n'):
            im = re.match(r'^\s*//@include\s+(\S+)\s*$', ln)
            if im:
                read_tpl(os.path.join(os.path.dirname(p), im.group(1)), depth + 1)
            else:
                tl.append(ln)
    read_tpl(template_path)
    out_lines = []
    linemap = []
    fninfos = []
    i = 0
    region = None

    def emit(text, meta):
        if text == '':
            return
        parts = text.split('\n')
        # join with the current last line if the previous emit did not end in a newline
        for idx, p in enumerate(parts):
            if idx == 0 and emit.partial:
                out_lines[-1] += p
                # keep the more specific meta
                if meta is not None and meta.get('block'):
                    linemap[-1] = meta_for_line(meta, p)
            else:
                out_lines.append(p)
                linemap.append(meta_for_line(meta, p))
        emit.partial = True
        if text.endswith('\n'):
            out_lines.pop()
            linemap.pop()
            emit.partial = False
    emit.partial = False

    def meta_for_line(meta, line):
        if meta is None:
            return None
        mm = dict(meta)
        cm = CLAUSE_TAG.search(line)
        if cm:
            mm['clause'] = cm.group(1)
            t = cm.group(2).split()
            if t:
                mm['tags'] = t
        return mm

    while i < len(tl):
        line = tl[i]
        dm = DIRECTIVE.match(line)
        if not dm:
            emit(line + '\n', ({'region': region[0], 'tags': region[1], 'fn': None, 'block': 'region'} if region else None))
            i += 1
            continue
        d, arg = dm.group(1), dm.group(2).strip()
        if d == 'region':
            toks = arg.split()
            region = (toks[0], toks[1:])
            i += 1
        elif d == 'endregion':
            region = None
            i += 1
        elif d == 'item':
            toks = arg.split()
            rel, kind, name = toks[0], toks[1], toks[2]
            ordinal = None
            for t in toks[3:]:
                if t.startswith('#'):
                    ordinal = int(t[1:])
            substs = []
            vis = None
            i += 1
            while i < len(tl):
                dm2 = DIRECTIVE.match(tl[i])
                if dm2 and dm2.group(1) == 'subst':
                    a, b = dm2.group(2).split('=>')
                    substs.append((a.strip().strip('`'), b.strip().strip('`')))
                    i += 1
                else:
                    break
            src, m, it = select_item(repo, rel, (kind,), name, ordinal)
            orig = src[it.sig_start:it.end]
            text = strip_attrs_and_docs(apply_substs(orig, substs))
            fninfos.append({'unit': unit, 'file': rel, 'item': '%s %s' % (kind, name),
                            'sha256': hashlib.sha256(orig.encode()).hexdigest(), 'tags': [],
                            'external_body': False, 'substitutions': ['%s => %s' % s for s in substs],
                            'src_line': src.count('\n', 0, it.sig_start) + 1, 'kind': 'item'})
            emit(text + '\n', {'fn': None, 'block': 'item', 'item': name, 'tags': []})
        elif d == 'fn':
            fs = FnSpec(arg, i + 1)
            i += 1
            cur = None
            while i < len(tl):
                dm2 = DIRECTIVE.match(tl[i])
                if dm2:
                    d2, a2 = dm2.group(1), dm2.group(2).strip()
                    if d2 == 'end':
                        i += 1
                        break
                    elif d2 == 'tags':
                        fs.tags = a2.split()
                    elif d2 == 'name':
                        fs.rename = a2
                    elif d2 == 'ret':
                        fs.ret = a2
                    elif d2 == 'subst':
                        a, b = a2.split('=>')
                        fs.substs.append((a.strip().strip('`'), b.strip().strip('`')))
                    elif d2 == 'attr':
                        fs.attrs.append(a2)
                    elif d2 == 'pin':
                        fs.pin = a2.split()[0]
                    elif d2 in ('contract', 'bodystart', 'loop', 'loopbody', 'before', 'after', 'afterstmt'):
                        cur = Block(d2, a2)
                        fs.blocks.append(cur)
                    else:
                        raise GenError('template line %d: unknown directive //@%s' % (i + 1, d2))
                    i += 1
                else:
                    if cur is None:
                        if tl[i].strip() != '':
                            raise GenError('template line %d: text outside a block in //@fn' % (i + 1))
                    else:
                        cur.lines.append(tl[i])
                    i += 1
            else:
                raise GenError('template: //@fn at line %d not closed by //@end' % fs.lineno)
            segs, info = gen_fn(repo, fs, unit)
            fname = fs.rename or info['item'].split('::')[-1]
            info['gen_name'] = fname
            info['owner'] = info['item'].split('::')[0] if '::' in info['item'] else None
            fninfos.append(info)
            for text, bname in segs:
                emit(text, {'fn': info['item'], 'gen_name': fname, 'block': bname or 'code', 'tags': fs.tags,
                            'file': info['file']})
            emit('\n', None)
        else:
            raise GenError('template line %d: unknown directive //@%s' % (i + 1, d))
    text = '\n'.join(out_lines) + '\n'
    # ---- auto-include: `const` / `static` items of the same source file that an extracted function refers to and that the
    # template does not declare (a change may introduce a new named constant; constants carry their value, so including
    # them is sound and keeps such a change decidable instead of "cannot find value").  Recursive over const initialisers.
    declared = set(re.findall(r'(?<![A-Za-z0-9_])(?:const|static)\s+(?:mut\s+)?([A-Z][A-Z0-9_]*)\s*:', text))
    extra = []
    work = [(fi['file'], None) for fi in fninfos if fi.get('kind') != 'item']
    seen_files = {}
    body_of = {}
    for fi in fninfos:
        if fi.get('kind') == 'item':
            continue
    pending_text = text
    changed = True
    rounds = 0
    while changed and rounds < 5:
        changed = False
        rounds += 1
        for rel in sorted({fi['file'] for fi in fninfos}):
            src, m, items = load(repo, rel)
            for it in items:
                if it.kind in ('const', 'static') and it.owner is None and it.name not in declared:
                    if re.search(r'(?<![A-Za-z0-9_:.])' + re.escape(it.name) + r'(?![A-Za-z0-9_])', pending_text):
                        item_text = strip_attrs_and_docs(src[it.sig_start:it.end])
                        # only plain literal / arithmetic initialisers are taken automatically
                        init = item_text.split('=', 1)[1] if '=' in item_text else ''
                        if re.fullmatch(r'[\s0-9A-Za-z_+\-*/<>()|&^%;:usizei]*', init or ''):
                            extra.append((rel, it.name, item_text))
                            declared.add(it.name)
                            pending_text += '\n' + item_text
                            changed = True
    if extra:
        block = '\n'.join('// auto-included from %s (referenced by an extracted function)\n%s' % (rel, t) for rel, n, t in extra)
        marker = '} // verus!'
        pos = text.rfind(marker)
        if pos >= 0:
            add = block + '\n'
            text = text[:pos] + add + text[pos:]
            nl = add.count('\n')
            at = text[:pos].count('\n')
            for _ in range(nl):
                linemap.insert(at, None)
            for rel, n, t in extra:
                fninfos.append({'unit': unit, 'file': rel, 'item': 'const %s (auto-included)' % n, 'sha256': hashlib.sha256(t.encode()).hexdigest(),
                                'tags': [], 'external_body': False, 'substitutions': [], 'src_line': 0, 'kind': 'item'})
    return text, linemap, fninfos


if __name__ == '__main__':
    repo, tpl, outp = sys.argv[1], sys.argv[2], sys.argv[3]
    try:
        text, lm, infos = generate(repo, tpl, os.path.basename(tpl).split('.')[0])
    except (GenError, R.ScanError) as e:
        print('GENERATION ERROR:', e)
        sys.exit(2)
    open(outp, 'w').write(text)
    json.dump({'linemap': lm, 'functions': infos}, open(outp + '.map.json', 'w'))
    print('generated %s: %d lines, %d items' % (outp, text.count('\n'), len(infos)))
