#!/usr/bin/env python3
"""Small Rust source scanner: enough lexing to find items, function bodies and loop
headers by brace matching, aware of strings, raw strings, chars, lifetimes and comments.

It never rewrites anything; it only returns byte offsets into the original text.
"""
import re

class ScanError(Exception):
    pass

IDENT_START = re.compile(r'[A-Za-z_]')
IDENT_CHAR = re.compile(r'[A-Za-z0-9_]')


def mask(src):
    """Return a copy of src in which the *contents* of comments, strings and char literals
    are replaced by spaces (newlines kept), so that braces / keywords inside them are
    invisible to later searches.  Offsets are preserved."""
    out = list(src)
    i, n = 0, len(src)

    def blank(a, b):
        for k in range(a, b):
            if out[k] != '\n':
                out[k] = ' '

    while i < n:
        c = src[i]
        if c == '/' and i + 1 < n and src[i + 1] == '/':
            j = src.find('\n', i)
            if j < 0:
                j = n
            blank(i, j)
            i = j
        elif c == '/' and i + 1 < n and src[i + 1] == '*':
            depth, j = 1, i + 2
            while j < n and depth > 0:
                if src.startswith('/*', j):
                    depth += 1; j += 2
                elif src.startswith('*/', j):
                    depth -= 1; j += 2
                else:
                    j += 1
            blank(i, j)
            i = j
        elif c == '"' or (c in 'b' and i + 1 < n and src[i + 1] == '"' and not (i > 0 and IDENT_CHAR.match(src[i - 1]))):
            if c == 'b':
                i += 1
            j = i + 1
            while j < n and src[j] != '"':
                if src[j] == '\\':
                    j += 1
                j += 1
            blank(i + 1, j)
            i = j + 1
        elif c == 'r' and not (i > 0 and IDENT_CHAR.match(src[i - 1])) and re.match(r'r#*"', src[i:i + 20]):
            m = re.match(r'r(#*)"', src[i:])
            hashes = m.group(1)
            end = src.find('"' + hashes, i + len(m.group(0)))
            if end < 0:
                raise ScanError('unterminated raw string')
            blank(i + len(m.group(0)), end)
            i = end + 1 + len(hashes)
        elif c == "'":
            # char literal or lifetime
            m = re.match(r"'(\\.[^']*|[^\\'])'", src[i:i + 12])
            if m:
                blank(i + 1, i + len(m.group(0)) - 1)
                i += len(m.group(0))
            else:
                i += 1
        else:
            i += 1
    return ''.join(out)


def match_brace(m, open_pos):
    """m: masked text, open_pos: offset of '{' / '(' / '['.  Returns offset of the match."""
    pairs = {'{': '}', '(': ')', '[': ']'}
    o = m[open_pos]
    c = pairs[o]
    depth = 0
    for k in range(open_pos, len(m)):
        ch = m[k]
        if ch == o:
            depth += 1
        elif ch == c:
            depth -= 1
            if depth == 0:
                return k
    raise ScanError('unbalanced %s at %d' % (o, open_pos))


def find_body_open(m, start):
    """First '{' at ()/[] depth 0 at or after start; error on ';' first (declaration only)."""
    depth = 0
    k = start
    while k < len(m):
        ch = m[k]
        if ch in '([':
            depth += 1
        elif ch in ')]':
            depth -= 1
        elif ch == '{' and depth == 0:
            return k
        elif ch == ';' and depth == 0:
            return -1
        k += 1
    raise ScanError('no body found')


KW = lambda w: re.compile(r'(?<![A-Za-z0-9_])' + w + r'(?![A-Za-z0-9_])')


class Item:
    def __init__(self, kind, name, start, sig_start, body_open, end, owner=None, trait=None):
        self.kind = kind          # fn | struct | enum | const | static | type | impl
        self.name = name
        self.start = start        # including attributes / doc comments
        self.sig_start = sig_start  # start of 'pub fn' / 'fn' / 'struct' ... (after attributes)
        self.body_open = body_open  # offset of '{' (fn, impl) or -1
        self.end = end            # offset one past the closing '}' or ';'
        self.owner = owner        # impl self type name for methods
        self.trait = trait        # trait name for trait impls


ITEM_RE = re.compile(
    r'(?<![A-Za-z0-9_])(?:pub(?:\s*\([^)]*\))?\s+)?(?:(?:const|async|unsafe|extern\s+"[^"]*"|extern)\s+)*'
    r'(fn|struct|enum|impl|mod|trait|const|static|type|union)(?![A-Za-z0-9_])')


def scan_items(src, m=None, lo=0, hi=None, owner=None, trait=None, out=None):
    """Collect items between lo and hi (top level of that region only, descending into
    impl / mod / trait blocks)."""
    if m is None:
        m = mask(src)
    if hi is None:
        hi = len(src)
    if out is None:
        out = []
    k = lo
    while k < hi:
        mm = ITEM_RE.search(m, k, hi)
        if not mm:
            break
        kind = mm.group(1)
        sig_start = mm.start()
        start = sig_start  # attributes and doc comments are never copied
        after = mm.end()
        if kind == 'const' and re.match(r'\s+fn\b', m[after:after + 8]):
            # handled by the modifiers group normally; skip
            k = after
            continue
        if kind in ('fn',):
            nm = re.match(r'\s*([A-Za-z_][A-Za-z0-9_]*)', m[after:])
            name = nm.group(1)
            bo = find_body_open(m, after)
            if bo < 0:
                end = m.find(';', after) + 1
                out.append(Item('fn', name, start, sig_start, -1, end, owner, trait))
                k = end
                continue
            bc = match_brace(m, bo)
            out.append(Item('fn', name, start, sig_start, bo, bc + 1, owner, trait))
            k = bc + 1
        elif kind in ('struct', 'enum', 'union'):
            nm = re.match(r'\s*([A-Za-z_][A-Za-z0-9_]*)', m[after:])
            name = nm.group(1)
            # struct may end with ';' (tuple / unit) or '{...}'
            depth = 0
            j = after
            end = None
            while j < hi:
                ch = m[j]
                if ch in '([':
                    depth += 1
                elif ch in ')]':
                    depth -= 1
                elif ch == '{' and depth == 0:
                    end = match_brace(m, j) + 1
                    break
                elif ch == ';' and depth == 0:
                    end = j + 1
                    break
                j += 1
            out.append(Item(kind, name, start, sig_start, -1, end, owner, trait))
            k = end
        elif kind in ('const', 'static', 'type'):
            nm = re.match(r'\s*(?:mut\s+)?([A-Za-z_][A-Za-z0-9_]*)', m[after:])
            if not nm:
                k = after
                continue
            name = nm.group(1)
            # ends at ';' at depth 0
            depth = 0
            j = after
            while j < hi:
                ch = m[j]
                if ch in '([{':
                    depth += 1
                elif ch in ')]}':
                    depth -= 1
                elif ch == ';' and depth == 0:
                    break
                j += 1
            out.append(Item(kind, name, start, sig_start, -1, j + 1, owner, trait))
            k = j + 1
        elif kind in ('impl', 'mod', 'trait'):
            bo = find_body_open(m, after)
            if bo < 0:
                k = m.find(';', after) + 1
                continue
            bc = match_brace(m, bo)
            header = m[after:bo]
            if kind == 'impl':
                # strip generics after impl
                h = header.strip()
                if h.startswith('<'):
                    # skip balanced <...>
                    d = 0
                    for idx, ch in enumerate(h):
                        if ch == '<':
                            d += 1
                        elif ch == '>' and h[idx - 1] != '-':
                            d -= 1
                            if d == 0:
                                h = h[idx + 1:]
                                break
                h = re.split(r'(?<![A-Za-z0-9_])where(?![A-Za-z0-9_])', h)[0]
                tr = None
                parts = re.split(r'(?<![A-Za-z0-9_])for(?![A-Za-z0-9_])', h)
                if len(parts) == 2:
                    tr = re.match(r'\s*([A-Za-z_:][A-Za-z0-9_:]*)', parts[0]).group(1).split('::')[-1]
                    ty = parts[1]
                else:
                    ty = parts[0]
                tn = re.match(r'\s*&?\s*(?:mut\s+)?([A-Za-z_:][A-Za-z0-9_:]*)', ty)
                tname = tn.group(1).split('::')[-1] if tn else '?'
                out.append(Item('impl', tname, start, sig_start, bo, bc + 1, None, tr))
                scan_items(src, m, bo + 1, bc, tname, tr, out)
            elif kind == 'trait':
                nm = re.match(r'\s*([A-Za-z_][A-Za-z0-9_]*)', m[after:])
                out.append(Item('trait', nm.group(1), start, sig_start, bo, bc + 1))
                scan_items(src, m, bo + 1, bc, nm.group(1), 'trait-decl', out)
            else:
                nm = re.match(r'\s*([A-Za-z_][A-Za-z0-9_]*)', m[after:])
                scan_items(src, m, bo + 1, bc, owner, trait, out)
            k = bc + 1
        else:
            k = after
    return out


LOOP_RE = re.compile(r'(?<![A-Za-z0-9_\'])(for|while|loop)(?![A-Za-z0-9_])')


def find_loops(m, lo, hi):
    """Return list of (kw_offset, body_open_offset) of loops whose keyword lies in [lo,hi),
    in textual order."""
    res = []
    k = lo
    while True:
        mm = LOOP_RE.search(m, k, hi)
        if not mm:
            break
        kw = mm.group(1)
        # 'for<' is a HRTB, not a loop
        rest = m[mm.end():mm.end() + 2].lstrip()
        if kw == 'for' and rest.startswith('<'):
            k = mm.end()
            continue
        bo = find_body_open(m, mm.end())
        if bo < 0 or bo >= hi:
            k = mm.end()
            continue
        res.append((mm.start(), bo))
        k = mm.end()
    return res
