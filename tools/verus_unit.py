#!/usr/bin/env python3
"""Run one Verus unit: generate the single-file input from /repo, run verus, map diagnostics to
named obligations, run the vacuity canary variant.  Returns a dict; never prints VIOLATION itself."""
import hashlib
import json
import os
import re
import subprocess
import sys
import time

sys.path.insert(0, os.path.dirname(os.path.abspath(__file__)))
import gen
import rustscan as R

VERIF = os.path.dirname(os.path.dirname(os.path.abspath(__file__)))
VERUS = os.environ.get('VERUS_BIN', 'verus')

ASSUMPTION_PATTERNS = [
    (re.compile(r'#\[verifier::external_body\]'), 'external_body'),
    (re.compile(r'assume_specification'), 'assume_specification'),
    (re.compile(r'external_type_specification'), 'external_type_specification'),
    (re.compile(r'(?<![A-Za-z0-9_])assume\s*\('), 'assume'),
    (re.compile(r'(?<![A-Za-z0-9_])admit\s*\('), 'admit'),
    (re.compile(r'uninterp\s+spec\s+fn'), 'uninterpreted spec fn'),
    (re.compile(r'#\[verifier::external\]'), 'external'),
]


def scan_assumptions(text):
    """Mechanical scan of the generated file for every construct that is an assumption."""
    res = []
    lines = text.split('\n')
    for i, ln in enumerate(lines):
        code = ln.split('//')[0]
        for pat, kind in ASSUMPTION_PATTERNS:
            if pat.search(code):
                # describe with the next declaration line
                ctx = ln.strip()
                if kind in ('external_body', 'external', 'external_type_specification'):
                    for j in range(i + 1, min(i + 6, len(lines))):
                        if re.search(r'\b(fn|struct|enum)\b', lines[j]):
                            ctx = lines[j].strip()
                            break
                # pick up an 'ASSUMED' comment just above
                note = ''
                for j in range(i - 1, max(i - 5, -1), -1):
                    if 'ASSUMED' in lines[j]:
                        note = lines[j].strip().lstrip('/ ').strip()
                        break
                    if lines[j].strip() == '':
                        break
                res.append('%s: %s%s' % (kind, ctx[:150], (' [' + note[:160] + ']') if note else ''))
    # de-duplicate, keep order
    seen, out = set(), []
    for r in res:
        if r not in seen:
            seen.add(r)
            out.append(r)
    return out


def make_canary(text, linemap):
    """Variant of the generated file with `assert(false)` spliced at the entry of every extracted
    function body and every loop body of those functions.  Every one of these asserts must FAIL;
    one that verifies means a contradictory requires / invariant (vacuous proof)."""
    lines = text.split('\n')
    m = R.mask(text)
    # function body starts: lines whose linemap says block == code and that begin a fn of a //@fn
    # Simpler and robust: re-scan the generated text for fns, keep those whose line is in a //@fn block.
    items = R.scan_items(text, m)
    offs = []
    line_starts = [0]
    for ln in lines:
        line_starts.append(line_starts[-1] + len(ln) + 1)

    def line_of(off):
        lo, hi = 0, len(line_starts) - 1
        while lo < hi:
            mid = (lo + hi + 1) // 2
            if line_starts[mid] <= off:
                lo = mid
            else:
                hi = mid - 1
        return lo
    points = []  # (offset_after_brace, label)
    for it in items:
        if it.kind != 'fn' or it.body_open < 0:
            continue
        ln = line_of(it.sig_start)
        meta = linemap[ln] if ln < len(linemap) else None
        if not meta or not meta.get('fn'):
            continue
        # external_body functions are not verified at all
        prev = '\n'.join(lines[max(0, ln - 3):ln + 1])
        if 'external_body' in prev:
            continue
        points.append((it.body_open + 1, 'entry:' + meta['gen_name']))
        for k, (kw, bo) in enumerate(R.find_loops(m, it.body_open + 1, it.end - 1)):
            points.append((bo + 1, 'loop%d:%s' % (k + 1, meta['gen_name'])))
    points.sort()
    out = []
    last = 0
    labels = {}
    for n, (off, label) in enumerate(points):
        out.append(text[last:off])
        out.append(' proof { if verif_canary_choice(%d) { assert(false); } } /*CANARY %d*/ ' % (n, n))
        labels[n] = label
        last = off
    out.append(text[last:])
    res = ''.join(out)
    # an uninterpreted choice keeps the canaries independent of one another (a failed assert is assumed afterwards)
    res = res.replace('verus! {', 'verus! {\npub uninterp spec fn verif_canary_choice(n: int) -> bool;', 1)
    return res, labels


def run_verus(path, rlimit=None, extra=None, timeout=1800):
    cmd = [VERUS, os.path.basename(path), '--output-json', '--time', '--multiple-errors', '200',
           '--error-format=json', '--triggers-mode', 'silent']
    if rlimit:
        cmd += ['--rlimit', str(rlimit)]
    if extra:
        cmd += extra
    t0 = time.time()
    try:
        p = subprocess.run(cmd, cwd=os.path.dirname(path), capture_output=True, text=True, timeout=timeout)
    except subprocess.TimeoutExpired:
        return {'timeout': True, 'cmd': ' '.join(cmd), 'wall_s': time.time() - t0}
    wall = time.time() - t0
    out = {}
    try:
        out = json.loads(p.stdout)
    except Exception:
        # stdout may contain non-json noise; find the first '{'
        try:
            out = json.loads(p.stdout[p.stdout.index('{'):])
        except Exception:
            out = {}
    diags = []
    for ln in p.stderr.split('\n'):
        ln = ln.strip()
        if ln.startswith('{'):
            try:
                diags.append(json.loads(ln))
            except Exception:
                pass
    return {'json': out, 'diags': diags, 'stderr': p.stderr, 'rc': p.returncode, 'cmd': ' '.join(cmd), 'wall_s': wall}


UNDECIDED_MARKERS = ('rlimit', 'Resource limit', 'timed out', 'could not prove termination' + '\0')


def classify(diags, linemap, unit):
    """Map verifier diagnostics to failed obligations.  Returns (failed, undecided, framework)."""
    failed, undecided, framework = [], [], []
    for d in diags:
        if d.get('level') != 'error':
            continue
        msg = d.get('message', '')
        if msg.startswith('aborting due to'):
            continue
        spans = d.get('spans', [])
        if not spans:
            framework.append({'message': msg, 'rendered': d.get('rendered', '')})
            continue
        prim = [s for s in spans if s.get('is_primary')] or spans
        prim = prim[0]
        label_spans = [s for s in spans if not s.get('is_primary')]
        pl = prim['line_start'] - 1
        pmeta = linemap[pl] if 0 <= pl < len(linemap) else None
        # the clause that failed: prefer a labelled secondary span inside our file that carries a clause
        cmeta, cline = None, None
        for s in label_spans + [prim]:
            l = s['line_start'] - 1
            mm = linemap[l] if 0 <= l < len(linemap) else None
            if mm and (mm.get('clause') or mm.get('block') not in (None, 'code')):
                cmeta, cline = mm, s
                break
        if cmeta is None:
            cmeta, cline = pmeta, prim
        if any(k in msg for k in ('rlimit', 'Resource limit', 'timed out')):
            undecided.append({'message': msg, 'fn': (pmeta or {}).get('fn'), 'rendered': d.get('rendered', '')})
            continue
        if pmeta is None and cmeta is None:
            framework.append({'message': msg, 'rendered': d.get('rendered', '')})
            continue
        fn = (pmeta or {}).get('gen_name') or (cmeta or {}).get('gen_name') or (pmeta or {}).get('region') or (cmeta or {}).get('region') or (pmeta or {}).get('item')
        if fn is None:
            framework.append({'message': msg, 'rendered': d.get('rendered', '')})
            continue
        tags = None
        clause = None
        for mm in (cmeta, pmeta):
            if mm and mm.get('clause'):
                clause = mm['clause']
                tags = mm.get('tags')
                break
        if tags is None:
            tags = (pmeta or cmeta or {}).get('tags') or (cmeta or {}).get('tags') or []
        kind = re.sub(r'[^a-z]+', '-', msg.lower()).strip('-')[:40]
        if clause is None:
            text = ''
            if cline.get('text'):
                text = cline['text'][0].get('text', '').strip()
            clause = '%s@%s' % (kind, hashlib.sha1(text.encode()).hexdigest()[:8])
        failed.append({
            'obligation': '%s/%s/%s' % (unit, fn, clause), 'unit': unit, 'fn': fn, 'clause': clause,
            'tags': tags, 'message': msg, 'line': prim['line_start'],
            'source_fn': (pmeta or {}).get('fn'), 'file': (pmeta or cmeta or {}).get('file'),
            'rendered': d.get('rendered', ''),
        })
    return failed, undecided, framework


def run_unit(repo, unit, template, workdir, tier='quick'):
    res = {'unit': unit, 'kind': 'verus', 'status': 'ok', 'failed': [], 'undecided': [], 'framework_errors': [],
           'functions': [], 'assumptions': [], 'obligations': 0, 'discharged': 0, 'smt_ms': 0, 'wall_s': 0,
           'per_function': [], 'canary': {}}
    t0 = time.time()
    try:
        text, linemap, infos = gen.generate(repo, template, unit)
    except (gen.GenError, R.ScanError) as e:
        res['status'] = 'undecided'
        res['framework_errors'].append({'message': 'generation: %s' % e})
        return res
    path = os.path.join(workdir, unit + '.rs')
    open(path, 'w').write(text)
    res['generated'] = path
    res['functions'] = infos
    res['assumptions'] = scan_assumptions(text)
    ctext, labels = make_canary(text, linemap)
    cpath = os.path.join(workdir, unit + '_canary.rs')
    open(cpath, 'w').write(ctext)
    rlimit = 40 if tier == 'thorough' else None
    # run both in parallel
    from concurrent.futures import ThreadPoolExecutor
    with ThreadPoolExecutor(2) as ex:
        f1 = ex.submit(run_verus, path, rlimit)
        f2 = ex.submit(run_verus, cpath, (rlimit or 10) * 4)
        r, rc = f1.result(), f2.result()
    res['checker_cmd'] = r.get('cmd')
    res['wall_s'] = time.time() - t0
    if r.get('timeout'):
        res['status'] = 'undecided'
        res['undecided'].append({'message': 'verus timeout'})
        return res
    vr = r['json'].get('verification-results')
    if not vr or vr.get('encountered-vir-error') or (not vr.get('success') and vr.get('errors', 0) == 0 and vr.get('verified', 0) == 0):
        # rustc / VIR error: the spliced text no longer compiles -> undecided, never a violation
        res['status'] = 'undecided'
        msgs = [d.get('rendered') or d.get('message') for d in r['diags'] if d.get('level') == 'error']
        res['framework_errors'].append({'message': 'verus could not process the generated file', 'detail': '\n'.join(m for m in msgs[:6] if m) or r['stderr'][-3000:]})
        return res
    failed, undecided, framework = classify(r['diags'], linemap, unit)
    # per-function SMT results
    perfn = []
    try:
        for mod in r['json']['times-ms']['smt']['smt-run-module-times']:
            for fb in mod.get('function-breakdown', []):
                perfn.append({'function': fb['function'], 'mode': fb.get('mode:') or fb.get('mode'), 'ms': fb['time-micros'] / 1000.0,
                              'rlimit': fb['rlimit'], 'success': fb['success']})
    except Exception:
        pass
    res['per_function'] = perfn
    res['smt_ms'] = sum(f['ms'] for f in perfn)
    # obligations: one SMT query group per function (Verus' unit of discharge) ...
    res['obligations'] = len(perfn)
    res['discharged'] = sum(1 for f in perfn if f['success'])
    res['verus_verified'] = vr.get('verified', 0)
    res['verus_errors'] = vr.get('errors', 0)
    # ... and the named clauses spliced into real functions (for reporting)
    clauses = []
    for i, mm in enumerate(linemap):
        if mm and mm.get('clause') and mm.get('gen_name'):
            clauses.append({'obligation': '%s/%s/%s' % (unit, mm['gen_name'], mm['clause']), 'tags': mm.get('tags') or []})
    res['named_clauses'] = clauses
    res['failed'] = failed
    res['undecided'] = undecided
    res['framework_errors'] = framework
    if vr.get('errors', 0) > 0 and not failed and not undecided and not framework:
        res['framework_errors'].append({'message': 'verus reported errors that could not be mapped', 'detail': r['stderr'][-3000:]})
    # canary evaluation
    can = {'points': len(labels), 'vacuous': [], 'ok': 0}
    if rc.get('timeout') or not rc['json'].get('verification-results') or rc['json']['verification-results'].get('encountered-vir-error'):
        can['error'] = 'canary variant could not be processed'
    else:
        ctext_lines = ctext.split('\n')
        failing = set()
        for d in rc['diags']:
            if d.get('level') != 'error':
                continue
            for s in d.get('spans', []):
                l = s['line_start'] - 1
                if 0 <= l < len(ctext_lines):
                    for mm in re.finditer(r'/\*CANARY (\d+)\*/', ctext_lines[l]):
                        # only count when the span really is the canary assert on that line
                        if d.get('message', '').startswith('assertion failed'):
                            seg = ctext_lines[l]
                            col = s.get('column_start', 0)
                            # nearest canary marker after the column
                            best = None
                            for m2 in re.finditer(r'assert\(false\); \} \} /\*CANARY (\d+)\*/', seg):
                                if m2.start() + 1 >= col - 12 and best is None:
                                    best = int(m2.group(1))
                            if best is not None:
                                failing.add(best)
        rlimit_fns = set()
        for d in rc['diags']:
            if d.get('level') == 'error' and any(k in d.get('message', '') for k in ('rlimit', 'Resource limit')):
                for sp in d.get('spans', []):
                    l = sp['line_start'] - 1
                    mm = linemap[l - 1] if 0 <= l - 1 < len(linemap) else None   # canary file has one extra line at the top
                    if mm and mm.get('gen_name'):
                        rlimit_fns.add(mm['gen_name'])
        for n, label in labels.items():
            if n in failing:
                can['ok'] += 1
            elif label.split(':', 1)[1] in rlimit_fns:
                can.setdefault('undetermined', []).append(label)   # solver gave up on the canary variant: not vacuity
                can['ok'] += 1
            else:
                can['vacuous'].append(label)
    res['canary'] = can
    if res['framework_errors'] or res['undecided']:
        res['status'] = 'undecided'
    if failed:
        res['status'] = 'failed'
    return res


if __name__ == '__main__':
    import tempfile
    unit = sys.argv[1]
    wd = tempfile.mkdtemp(prefix='zkverif.')
    r = run_unit('/repo', unit, os.path.join(VERIF, 'specs', unit + '.rs.in'), wd)
    r2 = dict(r)
    r2.pop('functions', None)
    print(json.dumps(r2))
