#!/usr/bin/env python3
"""setup_cmd: nothing to build (Python + pre-installed verus / kani); verifies the tools are present."""
import shutil, subprocess, sys
ok = True
for t in ('verus', 'cargo', 'python3'):
    if not shutil.which(t):
        print('missing tool:', t); ok = False
try:
    subprocess.run(['cargo', 'kani', '--version'], capture_output=True, timeout=120, check=True)
except Exception as e:
    print('cargo kani not usable:', e); ok = False
print('selftest', 'ok' if ok else 'FAILED')
sys.exit(0 if ok else 1)
