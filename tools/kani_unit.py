#!/usr/bin/env python3
"""Run one Kani unit on the REAL crate: copy utils/ (and rln/) of /repo's working tree into a scratch
workspace, append the unit's `#[cfg(kani)] mod verif_kani` to the file under test (private items are
reachable from a child module), patch color-eyre with the message-free shim, run cargo kani per harness.

Harness results: every `assert!(cond, "<fn>/<clause>")` message is an obligation name.  A failed
property whose description is such a name is a failed obligation of that function; Kani-internal
failures (unwinding assertions, unsupported constructs, timeouts, OOM) are UNDECIDED, never a violation."""
import json
import os
import re
import shutil
import subprocess
import sys
import time
from concurrent.futures import ThreadPoolExecutor

VERIF = os.path.dirname(os.path.dirname(os.path.abspath(__file__)))
CACHE = os.environ.get('VERIF_KANI_CACHE', '/var/tmp/zkverif-cache')


def sh(cmd, cwd=None, env=None, timeout=None):
    # own process group: on timeout the whole tree (cargo-kani -> cbmc) is killed, no orphan solver keeps running
    import signal
    t0 = time.time()
    p = subprocess.Popen(cmd, cwd=cwd, env=env, stdout=subprocess.PIPE, stderr=subprocess.STDOUT, text=True, start_new_session=True)
    try:
        out, _ = p.communicate(timeout=timeout)
        return p.returncode, out, time.time() - t0, False
    except subprocess.TimeoutExpired:
        try:
            os.killpg(p.pid, signal.SIGKILL)
        except ProcessLookupError:
            pass
        try:
            out, _ = p.communicate(timeout=30)
        except Exception:
            out = ''
        return -1, out or '', time.time() - t0, True


def build_workspace(repo, wd, cfg, tier='quick'):
    ws = os.path.join(wd, 'kws_' + cfg['name'])
    os.makedirs(ws)
    members = cfg.get('members', ['utils'])
    for m in members:
        shutil.copytree(os.path.join(repo, m), os.path.join(ws, m),
                        ignore=shutil.ignore_patterns('target', 'benches', 'tests', '*.arkzkey'), copy_function=shutil.copy)  # fresh mtimes (shared target dir)
        # benches are declared in Cargo.toml: strip [[bench]] sections so cargo does not look for them
        ct = os.path.join(ws, m, 'Cargo.toml')
        s = open(ct).read()
        s = re.sub(r'\[\[bench\]\][^\[]*', '', s)
        open(ct, 'w').write(s)
    shutil.copytree(os.path.join(VERIF, 'kani', 'shims'), os.path.join(ws, 'shims'))
    for extra in cfg.get('extra_crates', []):
        shutil.copytree(os.path.join(VERIF, 'kani', extra), os.path.join(ws, os.path.basename(extra)))
        members = members + [os.path.basename(extra)]
    # optional "patch_crates": {"<crates.io package name>": "<dir under /verif>"}: executable stand-ins for dependencies
    # CBMC cannot run (storage engines, thread pools); copied to <ws>/stubs/<name>, patched in next to color-eyre.
    # Each stand-in is an ASSUMPTION of the unit and must be listed in its "assumptions".
    patches = ''
    for pkg, src in sorted(cfg.get('patch_crates', {}).items()):
        shutil.copytree(os.path.join(VERIF, src), os.path.join(ws, 'stubs', pkg), ignore=shutil.ignore_patterns('target', 'Cargo.lock'))
        patches += '%s = { path = "stubs/%s" }\n' % (pkg, pkg)
    with open(os.path.join(ws, 'Cargo.toml'), 'w') as f:
        f.write('[workspace]\nmembers = [%s]\nresolver = "2"\n[patch.crates-io]\ncolor-eyre = { path = "shims/color-eyre" }\n%s' %
                (', '.join('"%s"' % m for m in members), patches))
    shutil.copy(os.path.join(repo, 'Cargo.lock'), os.path.join(ws, 'Cargo.lock'))
    os.makedirs(os.path.join(ws, '.cargo'))
    with open(os.path.join(ws, '.cargo', 'config.toml'), 'w') as f:
        f.write('[net]\noffline = true\n')
    # optional pre-build hook(s): one command or a list of commands, run from /verif after the workspace is
    # laid out ({repo}, {ws}, {verif} substituted).  Used for mechanical extraction into an extra crate and for
    # files the copy above leaves out.  A non-zero exit is a lost anchor (undecided), never a pass.
    pregen = cfg.get('pregen') or []
    for cmd in ([pregen] if pregen and isinstance(pregen[0], str) else pregen):
        cmd = [a.replace('{repo}', repo).replace('{ws}', ws).replace('{verif}', VERIF).replace('{tier}', tier) for a in cmd]
        rc, out, _, _ = sh(cmd, cwd=VERIF, timeout=600)
        if rc != 0:
            return None, 'lost anchor: pregen %s failed: %s' % (' '.join(cmd), out[-800:]), []
    # optional "source_subst": [{"file", "from", "to", "why"}]: DECLARED one-line substitutions in the scratch copy of a real
    # source file (e.g. `use std::collections::HashMap;` -> an association-list stand-in CBMC can run).  `from` must occur
    # exactly once, otherwise lost anchor (undecided).  Each is listed in the evidence as a substitution / assumption.
    for sub in cfg.get('source_subst', []):
        dst = os.path.join(ws, sub['file'])
        if not os.path.exists(dst):
            return None, 'lost anchor: %s not found' % sub['file'], []
        txt = open(dst).read()
        if txt.count(sub['from']) != 1:
            return None, 'lost anchor: source_subst text %r occurs %d times in %s' % (sub['from'], txt.count(sub['from']), sub['file']), []
        open(dst, 'w').write(txt.replace(sub['from'], sub['to']))
    appended = []
    for ap in cfg.get('append', []):
        dst = os.path.join(ws, ap['file'])
        if not os.path.exists(dst):
            return None, 'lost anchor: %s not found' % ap['file'], []
        body = open(os.path.join(VERIF, ap['harness'])).read()
        with open(dst, 'a') as f:
            f.write('\n' + body)
        appended.append(ap['file'])
    for cp in cfg.get('crate_attrs', []):
        # crate-level attributes needed by Kani features (loop contracts), guarded by cfg(kani)
        p = os.path.join(ws, cp['file'])
        s = open(p).read()
        open(p, 'w').write(cp['text'] + '\n' + s)
    return ws, None, appended


RESULT_RE = re.compile(r'^VERIFICATION:- (SUCCESSFUL|FAILED)', re.M)
CHECK_RE = re.compile(r'Check \d+: (.+)\n\s+- Status: (\w+)\n\s+- Description: "(.*)"\n\s+- Location: (.*)')


def parse_harness_output(out):
    checks = []
    for m in CHECK_RE.finditer(out):
        checks.append({'id': m.group(1), 'status': m.group(2), 'description': m.group(3).strip('"'), 'location': m.group(4)})
    m = RESULT_RE.search(out)
    verdict = m.group(1) if m else None
    return verdict, checks


import threading
# at most VERIF_KANI_PROCS cargo-kani / CBMC processes at once across all units of one ./check (CPU and memory guard)
HARNESS_SEM = threading.BoundedSemaphore(int(os.environ.get('VERIF_KANI_PROCS', '14')))


def run_harness(ws, cfg, h, target_dir, tier):
    with HARNESS_SEM:
        return run_harness_(ws, cfg, h, target_dir, tier)


def run_harness_(ws, cfg, h, target_dir, tier):
    env = dict(os.environ)
    env['CARGO_NET_OFFLINE'] = 'true'
    env['CARGO_TARGET_DIR'] = target_dir
    cmd = ['cargo', 'kani', '-p', cfg['package']] + cfg.get('cargo_args', []) + \
          ['-Z', 'function-contracts', '-Z', 'stubbing', '--harness', h['name'], '--output-format', 'regular']
    cmd += h.get('args', [])
    timeout = h.get('timeout', 1800 if tier == 'quick' else 7200)
    # memory guard: 24 GB address space per harness
    wrapped = ['bash', '-c', 'ulimit -v %d; exec "$@"' % (h.get('mem_gb', 24) * 1024 * 1024), 'x'] + cmd
    rc, out, wall, timed_out = sh(wrapped, cwd=ws, env=env, timeout=timeout)
    verdict, checks = parse_harness_output(out)
    return {'name': h['name'], 'rc': rc, 'out': out, 'wall_s': wall, 'timed_out': timed_out, 'verdict': verdict,
            'checks': checks, 'cmd': ' '.join(cmd)}


def concrete_playback(ws, cfg, h, target_dir):
    env = dict(os.environ)
    env['CARGO_NET_OFFLINE'] = 'true'
    env['CARGO_TARGET_DIR'] = target_dir
    cmd = ['cargo', 'kani', '-p', cfg['package']] + cfg.get('cargo_args', []) + \
          ['-Z', 'function-contracts', '-Z', 'stubbing', '-Z', 'concrete-playback', '--concrete-playback=print',
           '--harness', h['name']] + h.get('args', [])
    rc, out, wall, to = sh(cmd, cwd=ws, env=env, timeout=h.get('timeout', 1800))
    m = re.search(r'Concrete playback unit test for `[^`]*`:\s*```\s*(.*?)```', out, re.S)
    return m.group(1).strip() if m else None


def run_unit(repo, unit, cfg, wd, tier='quick', prop=None):
    import fcntl
    os.makedirs(CACHE, exist_ok=True)
    lock = open(os.path.join(CACHE, 'kani-target-' + cfg.get('cache_key', unit)) + '.lock', 'w')
    fcntl.flock(lock, fcntl.LOCK_EX)
    try:
        return run_unit_locked(repo, unit, cfg, wd, tier, prop)
    finally:
        fcntl.flock(lock, fcntl.LOCK_UN)
        lock.close()


def run_unit_locked(repo, unit, cfg, wd, tier='quick', prop=None):
    cfg = dict(cfg)
    cfg['name'] = unit
    res = {'unit': unit, 'kind': 'kani', 'status': 'ok', 'failed': [], 'undecided': [], 'framework_errors': [],
           'functions': [], 'assumptions': [], 'obligations': 0, 'discharged': 0, 'smt_ms': 0, 'wall_s': 0,
           'bounded': [], 'harnesses': [], 'canary': {}}
    t0 = time.time()
    ws, err, appended = build_workspace(repo, wd, cfg, tier)
    if err:
        res['status'] = 'undecided'
        res['framework_errors'].append({'message': err})
        return res
    hs = [h for h in cfg['harnesses'] if (tier == 'thorough' or h.get('tier', 'quick') == 'quick')
          and (prop is None or prop in h['tags'])]
    if not hs:
        res['wall_s'] = time.time() - t0
        return res
    os.makedirs(CACHE, exist_ok=True)
    target_dir = os.path.join(CACHE, 'kani-target-' + cfg.get('cache_key', unit))
    # One user per target directory at a time: Kani keeps its goto binaries / metadata under <target>/kani keyed by crate name,
    # so two runs that compile DIFFERENT sources of the same crate into one target directory (two ./check processes, or two
    # units sharing a cache key) overwrite each other's artefacts and produce garbage verdicts (seen: spurious pointer failures).
    # (run_unit holds <target_dir>.lock for the whole unit, concrete playback included)
    # first harness alone (builds dependencies), the rest in parallel
    results = [run_harness(ws, cfg, hs[0], target_dir, tier)]
    if len(hs) > 1:
        with ThreadPoolExecutor(int(os.environ.get('VERIF_KANI_JOBS', '8'))) as ex:
            results += list(ex.map(lambda h: run_harness(ws, cfg, h, target_dir, tier), hs[1:]))
    import hashlib
    for ap in cfg.get('append', []) + cfg.get('extracted', []):  # 'extracted': items a pregen hook copies verbatim
        src = open(os.path.join(repo, ap['file'])).read()
        for fn in ap.get('functions', []):
            res['functions'].append({'unit': unit, 'file': ap['file'], 'item': fn, 'sha256': hashlib.sha256(src.encode()).hexdigest(),
                                     'tags': sorted({t for h in cfg['harnesses'] for t in h['tags']}), 'external_body': False,
                                     'substitutions': ['%s => %s' % (x['from'], x['to']) for x in cfg.get('source_subst', []) if x['file'] == ap['file']],
                                     'kind': ap.get('kind', 'kani-real-crate')})
    res['assumptions'] = list(cfg.get('assumptions', [])) + [
        'color-eyre replaced by a message-free shim (kani/shims/color-eyre): error *values* are not inspected',
        'Kani/CBMC: termination not proved; unwinding assertions on']
    for h, r in zip(hs, results):
        hinfo = {'name': h['name'], 'status': None, 'completeness': 'complete' if h.get('complete') else 'bounded: ' + h.get('bound', '?'),
                 'wall_s': round(r['wall_s'], 1), 'n_checks': len(r['checks'])}
        named = [c for c in r['checks'] if '/' in c['description'] and not c['description'].startswith('/')]
        user_failed = [c for c in named if c['status'] == 'FAILURE' and re.match(r'^[A-Za-z0-9_]+/[A-Za-z0-9_.\-]+$', c['description'])]
        internal_failed = [c for c in r['checks'] if c['status'] in ('FAILURE', 'UNDETERMINED', 'UNREACHABLE' + '\0') and c not in user_failed]
        unsupported = [c for c in internal_failed if c['status'] == 'FAILURE' and ('unsupported_construct' in c['id'] or 'not currently supported' in c['description']
                       or 'is not supported' in c['description'] or 'Unknown file' in c['location'])]
        panics = [c for c in internal_failed if c['status'] == 'FAILURE' and ('unwinding assertion' not in c['description'])
                  and not c['id'].startswith('unwind') and c not in unsupported]
        unwind_fail = [c for c in internal_failed if 'unwinding assertion' in c['description'] and c['status'] == 'FAILURE']
        res['obligations'] += max(1, len([c for c in r['checks'] if c['status'] in ('SUCCESS', 'FAILURE')]))
        if r['verdict'] == 'SUCCESSFUL':
            hinfo['status'] = 'SUCCESSFUL'
            res['discharged'] += len([c for c in r['checks'] if c['status'] == 'SUCCESS']) or 1
        elif r['verdict'] == 'FAILED' and (user_failed or panics) and not unwind_fail and not unsupported:
            hinfo['status'] = 'FAILED'
            res['discharged'] += len([c for c in r['checks'] if c['status'] == 'SUCCESS'])
            seen = set()
            cex = None
            for c in user_failed + panics:
                if c in user_failed:
                    fn, clause = c['description'].split('/', 1)
                else:
                    # a reachable panic / overflow / OOB inside the real function: no-panic obligation
                    # (a harness whose input assumption isolates ONE crash class may name the clause that guards it: "panic_clause")
                    fn, clause = h.get('function', h['name']), h.get('panic_clause', 'no-panic')
                ob = '%s/%s/%s' % (h.get('unit_alias', unit), fn, clause)
                if ob in seen:
                    continue
                seen.add(ob)
                if cex is None and h.get('playback', True):
                    cex = concrete_playback(ws, cfg, h, target_dir) or ''
                n_fail_checks = len([x for x in (user_failed + panics) if ((x['description'].split('/', 1) == [fn, clause]) if x in user_failed else (clause == h.get('panic_clause', 'no-panic')))])
                res['failed'].append({'obligation': ob, 'unit': unit, 'fn': fn, 'clause': clause,
                                      # "clause_tags": {"<fn>/<clause>": [..]} narrows the properties one clause of a harness carries
                                      'tags': h.get('clause_tags', {}).get('%s/%s' % (fn, clause), cfg.get('clause_tags', {}).get('%s/%s' % (fn, clause), h['tags'])), 'n_failed_checks': max(1, n_fail_checks),
                                      'message': 'Kani: %s (%s) in harness %s' % (c['description'], c['location'], h['name']),
                                      'rendered': '\n'.join('%s: %s [%s] %s' % (x['id'], x['status'], x['description'], x['location'])
                                                            for x in r['checks'] if x['status'] != 'SUCCESS')[:4000],
                                      'backend': 'kani', 'file': (cfg.get('append') or cfg.get('extracted') or [{}])[0].get('file'),
                                      'counterexample': cex or None, 'harness': h['name']})
        else:
            hinfo['status'] = 'UNDECIDED'
            res['undecided'].append({'message': 'harness %s: %s' % (h['name'], 'timeout' if r['timed_out'] else
                                     ('unwinding assertion failed (bound too small)' if unwind_fail else ('construct not supported by Kani reached' if unsupported else 'no verdict / tool error'))),
                                     'detail': r['out'][-2500:]})
        if not h.get('complete'):
            res['bounded'].append({'harness': '%s/%s' % (unit, h['name']), 'bound': h.get('bound', '?'), 'status': hinfo['status'],
                                   'covers': h.get('covers', '')})
        res['harnesses'].append(hinfo)
        res['smt_ms'] += r['wall_s'] * 1000
        res['checker_cmd'] = r['cmd']
    res['wall_s'] = time.time() - t0
    if res['undecided'] or res['framework_errors']:
        res['status'] = 'undecided'
    if res['failed']:
        res['status'] = 'failed'
    return res


if __name__ == '__main__':
    import tempfile
    unit = sys.argv[1]
    cfg = json.load(open(os.path.join(VERIF, 'specs', 'units.json')))['units'][unit]
    wd = tempfile.mkdtemp(prefix='zkverif.', dir='/var/tmp')
    only = sys.argv[2:] or None
    if only:
        cfg['harnesses'] = [h for h in cfg['harnesses'] if h['name'] in only]
    r = run_unit('/repo', unit, cfg, wd, tier='thorough')
    for h in r['harnesses']:
        print(h)
    for f in r['failed']:
        print('FAILED', f['obligation'], f['message']); print(f.get('counterexample'))
    for u in r['undecided']:
        print('UNDECIDED', u['message']); print(u.get('detail', '')[-1500:])
    print(r['status'], r['obligations'], r['discharged'], round(r['wall_s'], 1))
    shutil.rmtree(wd, ignore_errors=True)
