#!/usr/bin/env python3
"""Mechanical generation for the Kani unit `ffi_glue_kani` (property C11).

usage: gen_ffi_glue.py <repo> <out dir: .../ffi_glue/src> [quick|thorough]

1. `rln/src/ffi.rs` of <repo>'s working tree is copied BYTE FOR BYTE to <out>/ffi.rs (the four glue macros, the
   `ProcessArg` impls, `Buffer` and its two conversions, every `extern "C"` function) and the harness module generated
   from the table FFI below is appended (`#[cfg(kani)] mod verif_kani { use super::*; ... }`).  Nothing is dropped or
   rewritten.  The file is compiled as module `ffi` of the small harness crate kani/ffi_glue, whose module `public`
   stands in for `crate::public` (the only import of ffi.rs).
2. <out>/public.rs, the stand-in for the Rust API, is generated from `rln/src/public.rs`: the signature of every `pub fn`
   of `impl RLN` and of the free functions that is active in the default build (not `stateless`, not `wasm32`) is copied
   byte for byte; its body is replaced by a RECORDING stub: it logs which method ran on which context with which
   argument values (usize values; every byte a reader / slice / vector argument yields), writes a nondeterministic
   number of nondeterministic bytes to every writer argument, moves the context to a nondeterministic new state when it
   takes `&mut self`, and returns a nondeterministic `Ok` / `Err` (with a nondeterministic verdict / count inside).
   This is the callee contract "anything": the FFI function is verified against every behaviour of the Rust API.
   A method of the API whose return type the generator does not know is left out (an FFI function that calls it no
   longer compiles: undecided, never a pass).

The table FFI is the specification taken from the property statement: which Rust API call *corresponds* to each FFI
entry point (same name; `seq_atomic_operation` = `atomic_operation` at the current leaf count)."""
import os
import re
import sys

sys.path.insert(0, os.path.dirname(os.path.abspath(__file__)))
import rustscan as RS

# name of the FFI fn, corresponding API method, ctx kind (mut / const / none / new), argument kinds in FFI order
# (U = usize, B = *const Buffer), result kind (unit = bool only, out = *mut Buffer, verdict = *mut bool, usize = plain count)
FFI = [
    ('new', 'new', 'new', ['U', 'B'], 'ctx'),
    ('new_with_params', 'new_with_params', 'new', ['U', 'B', 'B', 'B'], 'ctx'),
    ('set_tree', 'set_tree', 'mut', ['U'], 'unit'),
    ('delete_leaf', 'delete_leaf', 'mut', ['U'], 'unit'),
    ('set_leaf', 'set_leaf', 'mut', ['U', 'B'], 'unit'),
    ('get_leaf', 'get_leaf', 'mut', ['U'], 'out'),
    ('leaves_set', 'leaves_set', 'mut', [], 'usize'),
    ('set_next_leaf', 'set_next_leaf', 'mut', ['B'], 'unit'),
    ('set_leaves_from', 'set_leaves_from', 'mut', ['U', 'B'], 'unit'),
    ('init_tree_with_leaves', 'init_tree_with_leaves', 'mut', ['B'], 'unit'),
    ('atomic_operation', 'atomic_operation', 'mut', ['U', 'B', 'B'], 'unit'),
    ('seq_atomic_operation', 'atomic_operation', 'mut', ['B', 'B'], 'seq'),
    ('get_root', 'get_root', 'const', [], 'out'),
    ('get_proof', 'get_proof', 'const', ['U'], 'out'),
    ('prove', 'prove', 'mut', ['B'], 'out'),
    ('verify', 'verify', 'const', ['B'], 'verdict'),
    ('generate_rln_proof', 'generate_rln_proof', 'mut', ['B'], 'out'),
    ('generate_rln_proof_with_witness', 'generate_rln_proof_with_witness', 'mut', ['B'], 'out'),
    ('verify_rln_proof', 'verify_rln_proof', 'const', ['B'], 'verdict'),
    ('verify_with_roots', 'verify_with_roots', 'const', ['B', 'B'], 'verdict'),
    ('key_gen', 'key_gen', 'const', [], 'out'),
    ('seeded_key_gen', 'seeded_key_gen', 'const', ['B'], 'out'),
    ('extended_key_gen', 'extended_key_gen', 'const', [], 'out'),
    ('seeded_extended_key_gen', 'seeded_extended_key_gen', 'const', ['B'], 'out'),
    ('recover_id_secret', 'recover_id_secret', 'const', ['B', 'B'], 'out'),
    ('set_metadata', 'set_metadata', 'mut', ['B'], 'unit'),
    ('get_metadata', 'get_metadata', 'const', [], 'out'),
    ('flush', 'flush', 'mut', [], 'unit'),
    ('hash', 'hash', 'none', ['B'], 'out'),
    ('poseidon_hash', 'poseidon_hash', 'none', ['B'], 'out'),
]

PRELUDE = r'''// GENERATED on every run by tools/gen_ffi_glue.py from rln/src/public.rs: signatures verbatim, bodies = recording stubs.
#![allow(unused_mut, unused_variables, dead_code, static_mut_refs, clippy::all)]
pub use std::io::{Read, Write};

pub struct Report;
impl std::fmt::Display for Report {
    fn fmt(&self, _f: &mut std::fmt::Formatter<'_>) -> std::fmt::Result { Ok(()) }
}
pub type Result<T, E = Report> = std::result::Result<T, E>;

/// Stand-in context: an opaque state word.  The API may move it anywhere.
pub struct RLN { pub state: u64 }

pub const MAXB: usize = @MAXB@;   // longest input buffer the harnesses build (the glue is loop free and length agnostic)
pub const MAXW: usize = @MAXW@;   // most bytes a stub writes to one writer
#[derive(Clone, Copy)]
pub struct Call {
    pub method: u8, pub self_addr: usize, pub nargs: usize,
    pub is_bytes: [bool; 4], pub usz: [usize; 4], pub bytes: [[u8; MAXB + 1]; 4], pub blen: [usize; 4],
    pub ok: bool, pub verdict: bool, pub count: usize, pub new_state: u64, pub state_after: u64,
    pub wrote: [u8; MAXW], pub wrote_len: usize,
}
pub const NO_CALL: Call = Call { method: 255, self_addr: 0, nargs: 0, is_bytes: [false; 4], usz: [0; 4], bytes: [[0; MAXB + 1]; 4], blen: [0; 4],
    ok: false, verdict: false, count: 0, new_state: 0, state_after: 0, wrote: [0; MAXW], wrote_len: 0 };
pub static mut LOG: [Call; 3] = [NO_CALL; 3];
pub static mut NCALLS: usize = 0;

#[cfg(kani)] fn nd<T: kani::Arbitrary>() -> T { kani::any() }
#[cfg(not(kani))] fn nd<T: Default>() -> T { T::default() }

fn begin(method: u8, self_addr: usize) -> usize {
    unsafe {
        let c = NCALLS;
        NCALLS += 1;
        if c < 3 { LOG[c] = NO_CALL; LOG[c].method = method; LOG[c].self_addr = self_addr; }
        c
    }
}
fn rec_usize(c: usize, v: usize) {
    unsafe { if c < 3 { let k = LOG[c].nargs; if k < 4 { LOG[c].usz[k] = v; LOG[c].is_bytes[k] = false; } LOG[c].nargs = k + 1; } }
}
fn rec_slice(c: usize, s: &[u8]) {
    unsafe {
        if c < 3 {
            let k = LOG[c].nargs;
            if k < 4 {
                LOG[c].is_bytes[k] = true;
                LOG[c].blen[k] = s.len();
                let mut i = 0;
                while i < MAXB + 1 { if i < s.len() { LOG[c].bytes[k][i] = s[i]; } i += 1; }
            }
            LOG[c].nargs = k + 1;
        }
    }
}
fn rec_read<R: Read>(c: usize, r: &mut R) {
    // one read into a buffer one byte longer than any input the harnesses build: yields every byte of it
    let mut tmp = [0u8; MAXB + 1];
    let n = match r.read(&mut tmp[..]) { Ok(n) => n, Err(_) => 0 };
    rec_slice(c, &tmp[..n]);
}
fn wr_out<W: Write>(c: usize, w: &mut W) {
    let n: usize = nd();
    #[cfg(kani)] kani::assume(n <= MAXW);
    let data: [u8; MAXW] = nd();
    let _ = w.write_all(&data[..n]);
    unsafe { if c < 3 { LOG[c].wrote = data; LOG[c].wrote_len = n; } }
}
fn touch(c: usize, rln: &mut RLN) {
    let s: u64 = nd();
    rln.state = s;
    unsafe { if c < 3 { LOG[c].state_after = s; } }
}
fn keep(c: usize, rln: &RLN) { unsafe { if c < 3 { LOG[c].state_after = rln.state; } } }
fn fin_unit(c: usize) -> Result<()> { let ok: bool = nd(); unsafe { if c < 3 { LOG[c].ok = ok; } } if ok { Ok(()) } else { Err(Report) } }
fn fin_bool(c: usize) -> Result<bool> {
    let ok: bool = nd(); let v: bool = nd();
    unsafe { if c < 3 { LOG[c].ok = ok; LOG[c].verdict = v; } }
    if ok { Ok(v) } else { Err(Report) }
}
fn fin_usize(c: usize) -> usize { let v: usize = nd(); unsafe { if c < 3 { LOG[c].ok = true; LOG[c].count = v; } } v }
fn fin_rln(c: usize) -> Result<RLN> {
    let ok: bool = nd(); let s: u64 = nd();
    unsafe { if c < 3 { LOG[c].ok = ok; LOG[c].new_state = s; } }
    if ok { Ok(RLN { state: s }) } else { Err(Report) }
}
fn fin_vec(c: usize) -> Result<Vec<u8>> { let ok: bool = nd(); unsafe { if c < 3 { LOG[c].ok = ok; } } if ok { Ok(Vec::new()) } else { Err(Report) } }
'''


def cfg_active(attrs):
    """Evaluate the #[cfg(..)] attributes in front of an item for the default native build."""
    for a in re.findall(r'#\[cfg\((.*)\)\]', attrs):
        e = a
        e = re.sub(r'feature\s*=\s*"stateless"', 'False', e)
        e = re.sub(r'target_arch\s*=\s*"wasm32"', 'False', e)
        e = re.sub(r'feature\s*=\s*"[a-z_\-]+"', 'True', e)
        e = re.sub(r'\bnot\s*\(', '(not ', e)
        e = re.sub(r'\ball\s*\(', 'all_(', e)
        e = re.sub(r'\bany\s*\(', 'any_(', e)
        if re.search(r'docsrs|test', e):
            continue
        try:
            if not eval(e, {'all_': lambda *x: all(x), 'any_': lambda *x: any(x)}):
                return False
        except Exception:
            raise RS.ScanError('cannot evaluate cfg: ' + a)
    return True


def split_top(s):
    out, depth, cur = [], 0, ''
    for ch in s:
        if ch in '(<[':
            depth += 1
        elif ch in ')>]':
            depth -= 1
        if ch == ',' and depth == 0:
            out.append(cur)
            cur = ''
        else:
            cur += ch
    if cur.strip():
        out.append(cur)
    return [x.strip() for x in out if x.strip()]


def gen_public(src, maxb=6, maxw=3):
    m = RS.mask(src)
    items = RS.scan_items(src, m)
    out = [PRELUDE.replace('@MAXB@', str(maxb)).replace('@MAXW@', str(maxw))]
    methods, free, ids = [], [], {}
    for it in items:
        if it.kind != 'fn' or it.body_open < 0:
            continue
        if not ((it.owner == 'RLN' and it.trait is None) or (it.owner is None and it.trait is None)):
            continue
        sig = src[it.sig_start:it.body_open].strip()
        if not sig.startswith('pub fn'):
            continue
        # attributes / doc comments in front of the item
        j = it.sig_start
        k = max(m.rfind('}', 0, j), m.rfind(';', 0, j), m.rfind('{', 0, j)) + 1
        attrs = '\n'.join(l for l in src[k:j].split('\n') if l.strip().startswith('#['))
        # multi-line cfg attributes
        attrs = re.sub(r'\s+', ' ', attrs)
        if not cfg_active(attrs):
            continue
        po = sig.index('(')
        # parameter list: balanced parentheses
        depth, q = 0, po
        while True:
            if sig[q] == '(':
                depth += 1
            elif sig[q] == ')':
                depth -= 1
                if depth == 0:
                    break
            q += 1
        params = split_top(sig[po + 1:q])
        ret = sig[q + 1:].strip()
        ret = ret[2:].strip() if ret.startswith('->') else '()'
        ret = re.split(r'\bwhere\b', ret)[0].strip()
        name = it.name
        mid = ids.setdefault(name, len(ids))
        body = []
        selfkind = None
        for p in params:
            if p in ('&self', '&mut self', 'self', 'mut self'):
                selfkind = p
                continue
            pn, pt = [x.strip() for x in p.split(':', 1)]
            pn = re.sub(r'^mut\s+', '', pn)
            if pt == 'usize':
                body.append('rec_usize(c, %s);' % pn)
            elif pt == 'R':
                body.append('let mut %s = %s; rec_read(c, &mut %s);' % (pn, pn, pn))
            elif pt == '&[u8]':
                body.append('rec_slice(c, %s);' % pn)
            elif pt == 'Vec<u8>':
                body.append('rec_slice(c, &%s[..]);' % pn)
            elif pt == 'W':
                body.append('let mut %s = %s; wr_out(c, &mut %s);' % (pn, pn, pn))
            else:
                body = None
                break
        fin = {'Result<()>': 'fin_unit(c)', 'Result<bool>': 'fin_bool(c)', 'usize': 'fin_usize(c)', 'Result<RLN>': 'fin_rln(c)',
               'Result<Vec<u8>>': 'fin_vec(c)'}.get(ret)
        if body is None or fin is None:
            out.append('// not generated (parameter or return type outside the stub vocabulary): %s' % re.sub(r'\s+', ' ', sig))
            continue
        addr = 'self as *const RLN as usize' if selfkind else '0'
        st = {'&mut self': 'touch(c, self);', '&self': 'keep(c, self);'}.get(selfkind, '')
        text = '%s {\n        let c = begin(M_%s, %s);\n        %s\n        %s\n        %s\n    }\n' % (
            src[it.sig_start:it.body_open].rstrip(), name.upper(), addr, '\n        '.join(body), st, fin)
        (methods if it.owner == 'RLN' else free).append(text)
    for n, i in ids.items():
        out.append('pub const M_%s: u8 = %d;' % (n.upper(), i))
    out.append('\nimpl RLN {\n    ' + '\n    '.join(methods) + '}\n')
    out.append('\n'.join(free))
    return '\n'.join(out)


def gen_harness(unwind=9):
    """The harness module: one proof harness per FFI entry point, clauses named from the property statement."""
    L = ['', '#[cfg(kani)]', '#[allow(unused_mut, unused_variables)]', 'mod verif_kani {', '    use super::*;', '    use crate::public::*;', '''
    fn reset() { unsafe { NCALLS = 0; LOG = [NO_CALL; 3]; } }
    fn ncalls() -> usize { unsafe { NCALLS } }
    fn call(k: usize) -> Call { unsafe { LOG[k] } }
    fn any_backing() -> ([u8; MAXB], usize) { let b: [u8; MAXB] = kani::any(); let n: usize = kani::any(); kani::assume(n <= MAXB); (b, n) }
    fn same_bytes(c: &Call, k: usize, b: &[u8; MAXB], n: usize) -> bool {
        if !(k < c.nargs && c.is_bytes[k] && c.blen[k] == n) { return false; }
        let mut i = 0;
        while i < MAXB { if i < n && c.bytes[k][i] != b[i] { return false; } i += 1; }
        true
    }
    fn same_usize(c: &Call, k: usize, v: usize) -> bool { k < c.nargs && !c.is_bytes[k] && c.usz[k] == v }
    fn out_designates(c: &Call, out: &Buffer) -> bool {
        if out.len != c.wrote_len { return false; }
        let mut i = 0;
        while i < MAXW { if i < out.len && unsafe { *out.ptr.wrapping_add(i) } != c.wrote[i] { return false; } i += 1; }
        true
    }
''']
    for (f, meth, ctxk, args, res) in FFI:
        A = lambda cl: 'concat!("%s", "/%s")' % (f, cl)
        b = ['    #[kani::proof]', '    #[kani::unwind(%d)]' % unwind, '    fn ffi_%s() {' % f, '        reset();']
        call_args = []
        if ctxk in ('mut', 'const'):
            b.append('        let s0: u64 = kani::any();')
            b.append('        let mut rln = RLN { state: s0 };')
            b.append('        let ctx_addr = &rln as *const RLN as usize;')
            call_args.append('&mut rln as *mut RLN' if ctxk == 'mut' else '&rln as *const RLN')
        if ctxk == 'new':
            b.append('        let sentinel: *mut RLN = std::ptr::null_mut();')
            b.append('        let mut slot: *mut RLN = sentinel;')
        for i, a in enumerate(args):
            if a == 'U':
                b.append('        let u%d: usize = kani::any();' % i)
                call_args.append('u%d' % i)
            else:
                b.append('        let (bk%d, n%d) = any_backing();' % (i, i))
                b.append('        let ib%d = Buffer { ptr: bk%d.as_ptr(), len: n%d };' % (i, i, i))
                call_args.append('&ib%d as *const Buffer' % i)
        if res in ('out',):
            b.append('        let mut ob = Buffer { ptr: std::ptr::null(), len: 0 };')
            call_args.append('&mut ob as *mut Buffer')
        if res == 'verdict':
            b.append('        let v0: bool = kani::any();')
            b.append('        let mut verdict: bool = v0;')
            # the FFI signature puts the verdict pointer last
            call_args.append('&mut verdict as *mut bool')
        if ctxk == 'new':
            call_args.append('&mut slot as *mut *mut RLN')
        # argument order of the FFI signature: ctx, inputs..., output   (get_leaf / get_proof: ctx, index, output)
        b.append('        let r = super::%s(%s);' % (f, ', '.join(call_args)))
        ncall = 2 if res == 'seq' else 1
        b.append('        kani::assert(ncalls() == %d, %s);' % (ncall, A('makes-exactly-the-corresponding-api-call')))
        b.append('        if ncalls() != %d { return; }' % ncall)
        if res == 'seq':
            b.append('        let c0 = call(0);')
            b.append('        kani::assert(c0.method == M_LEAVES_SET && c0.self_addr == ctx_addr && c0.nargs == 0, %s);' % A('sequential-batch-asks-the-context-for-its-leaf-count'))
            b.append('        let c = call(1);')
        else:
            b.append('        let c = call(0);')
        b.append('        kani::assert(c.method == M_%s, %s);' % (meth.upper(), A('makes-exactly-the-corresponding-api-call')))
        if ctxk in ('mut', 'const'):
            b.append('        kani::assert(c.self_addr == ctx_addr, %s);' % A('operates-on-the-given-context'))
            b.append('        kani::assert(rln.state == c.state_after, %s);' % A('context-evolves-exactly-as-the-api-left-it'))
        k = 0
        conds = []
        if res == 'seq':
            conds.append('same_usize(&c, 0, c0.count)')
            k = 1
        for i, a in enumerate(args):
            conds.append(('same_usize(&c, %d, u%d)' % (k, i)) if a == 'U' else ('same_bytes(&c, %d, &bk%d, n%d)' % (k, i, i)))
            k += 1
        conds.append('c.nargs == %d' % k)
        b.append('        kani::assert(%s, %s);' % (' && '.join(conds), A('api-receives-exactly-the-caller-arguments' if res != 'seq' else 'sequential-batch-starts-at-the-current-leaf-count')))
        if res == 'usize':
            b.append('        kani::assert(r == c.count, %s);' % A('returns-the-count-the-api-returns'))
        else:
            b.append('        kani::assert(r == c.ok, %s);' % A('reports-success-exactly-when-the-api-returns-ok'))
        if res == 'out':
            b.append('        if r { kani::assert(out_designates(&c, &ob), %s); }' % A('output-buffer-designates-exactly-the-bytes-the-api-wrote'))
        if res == 'verdict':
            b.append('        if r { kani::assert(verdict == c.verdict, %s); }' % A('verdict-agrees-with-the-api'))
        if res == 'ctx':
            b.append('        if r { kani::assert(slot != sentinel && unsafe { (*slot).state } == c.new_state, %s); }' % A('context-handle-is-the-instance-the-api-built'))
        b.append('    }')
        L.append('\n'.join(b))
    L.append('}')
    return '\n'.join(L)


def main():
    repo, out = sys.argv[1], sys.argv[2]
    tier = sys.argv[3] if len(sys.argv) > 3 else 'quick'
    maxb, maxw = (6, 3) if tier == 'quick' else (14, 6)   # thorough: longer buffers (the glue does not look at them; the bound is on the data only)
    os.makedirs(out, exist_ok=True)
    ffi = open(os.path.join(repo, 'rln/src/ffi.rs')).read()
    open(os.path.join(out, 'ffi.rs'), 'w').write(ffi + '\n' + gen_harness(maxb + 3) + '\n')
    pub = open(os.path.join(repo, 'rln/src/public.rs')).read()
    open(os.path.join(out, 'public.rs'), 'w').write(gen_public(pub, maxb, maxw))


if __name__ == '__main__':
    try:
        main()
    except RS.ScanError as e:
        print('lost anchor:', e)
        sys.exit(3)
