#!/usr/bin/env python3
"""./check --replay <file>: re-run a recorded failing input against the REAL code of /repo's working tree.

Two kinds of replay blocks are understood:
  --- REPLAY-TEST-BEGIN crate=<utils|rln> [features=<...>] [no-default-features] ---
     <a complete Rust integration test file; must contain #[test] functions asserting the clause>
  --- REPLAY-TEST-END ---
  --- KANI-PLAYBACK-BEGIN unit=<kani unit> harness=<name> ---
     <the `let concrete_vals ... kani::concrete_playback_run(...)` test body printed by Kani>
  --- KANI-PLAYBACK-END ---
Exit 1 (and a line REPLAY: FAILS) when the recorded input still violates the clause on the real code,
exit 0 (REPLAY: PASSES) when it no longer does, exit 2 when the replay could not be built."""
import json
import os
import re
import shutil
import subprocess
import sys
import tempfile

VERIF = os.path.dirname(os.path.dirname(os.path.abspath(__file__)))
CACHE = os.environ.get('VERIF_KANI_CACHE', '/var/tmp/zkverif-cache')


def scratch_ws(repo, members, patch_shim=False):
    wd = tempfile.mkdtemp(prefix='zkreplay.', dir=os.environ.get('VERIF_SCRATCH', '/var/tmp'))
    for m in members:
        shutil.copytree(os.path.join(repo, m), os.path.join(wd, m), ignore=shutil.ignore_patterns('target', 'benches'), copy_function=shutil.copy)  # fresh mtimes: the shared target dir must never consider a stale lib fresh
        ct = os.path.join(wd, m, 'Cargo.toml')
        s = open(ct).read()
        s = re.sub(r'\[\[bench\]\][^\[]*', '', s)
        open(ct, 'w').write(s)
    with open(os.path.join(wd, 'Cargo.toml'), 'w') as f:
        f.write('[workspace]\nmembers = [%s]\nresolver = "2"\n[profile.dev.package."*"]\nopt-level = 3\n' % ', '.join('"%s"' % m for m in members))
    shutil.copy(os.path.join(repo, 'Cargo.lock'), os.path.join(wd, 'Cargo.lock'))
    return wd


def run_cargo_test(repo, crate, features, no_default, src, name='verif_replay'):
    members = ['utils'] if crate == 'utils' else ['utils', 'rln']
    wd = scratch_ws(repo, members)
    try:
        tdir = os.path.join(wd, crate, 'tests')
        os.makedirs(tdir, exist_ok=True)
        open(os.path.join(tdir, name + '.rs'), 'w').write(src)
        pkg = 'zerokit_utils' if crate == 'utils' else 'rln'
        cmd = ['cargo', 'test', '--offline', '-p', pkg, '--test', name]
        if no_default:
            cmd.append('--no-default-features')
        if features:
            cmd += ['--features', features]
        env = dict(os.environ)
        env['CARGO_NET_OFFLINE'] = 'true'
        env['CARGO_TARGET_DIR'] = os.path.join(CACHE, 'replay-target')
        os.makedirs(CACHE, exist_ok=True)
        p = subprocess.run(cmd + ['--', '--test-threads', '1'], cwd=wd, env=env, capture_output=True, text=True, timeout=3600)
        out = p.stdout + p.stderr
        if 'test result:' not in out:
            return 2, out
        return (0 if p.returncode == 0 else 1), out
    finally:
        shutil.rmtree(wd, ignore_errors=True)


def run_kani_playback(repo, unit, harness, body):
    sys.path.insert(0, os.path.join(VERIF, 'tools'))
    import kani_unit
    cfg = json.load(open(os.path.join(VERIF, 'specs', 'units.json')))['units'][unit]
    cfg = dict(cfg)
    cfg['name'] = unit
    wd = tempfile.mkdtemp(prefix='zkreplay.', dir=os.environ.get('VERIF_SCRATCH', '/var/tmp'))
    try:
        ws, err, _ = kani_unit.build_workspace(repo, wd, cfg)
        if err:
            return 2, err
        # add the playback test into the harness module
        ap = cfg['append'][0]
        fpath = os.path.join(ws, ap['file'])
        s = open(fpath).read()
        idx = s.rindex('}')
        test = '\n    #[test]\n    fn kani_concrete_playback_replay() {\n' + body + '\n    }\n'
        s = s[:idx] + test + s[idx:]
        open(fpath, 'w').write(s)
        env = dict(os.environ)
        env['CARGO_NET_OFFLINE'] = 'true'
        env['CARGO_TARGET_DIR'] = os.path.join(CACHE, 'kani-playback-target-' + cfg.get('cache_key', cfg['package']))
        cmd = ['cargo', 'kani', 'playback', '-Z', 'concrete-playback', '-p', cfg['package']] + cfg.get('cargo_args', []) + \
              ['--', 'kani_concrete_playback_replay']
        p = subprocess.run(cmd, cwd=ws, env=env, capture_output=True, text=True, timeout=3600)
        out = p.stdout + p.stderr
        if 'test result:' not in out:
            return 2, out
        return (0 if p.returncode == 0 else 1), out
    finally:
        shutil.rmtree(wd, ignore_errors=True)


def run(path, repo):
    text = open(path).read()
    m = re.search(r'--- REPLAY-TEST-BEGIN([^\n]*)---\n(.*?)\n--- REPLAY-TEST-END ---', text, re.S)
    k = re.search(r'--- KANI-PLAYBACK-BEGIN([^\n]*)---\n(.*?)\n--- KANI-PLAYBACK-END ---', text, re.S)
    if m:
        hdr = m.group(1)
        crate = (re.search(r'crate=(\S+)', hdr) or [None, 'utils'])[1]
        feat = re.search(r'features=(\S+)', hdr)
        rc, out = run_cargo_test(repo, crate, feat.group(1) if feat else None, 'no-default-features' in hdr, m.group(2))
    elif k:
        hdr = k.group(1)
        unit = re.search(r'unit=(\S+)', hdr).group(1)
        harness = re.search(r'harness=(\S+)', hdr).group(1)
        rc, out = run_kani_playback(repo, unit, harness, k.group(2))
    else:
        print('REPLAY: this file carries no replayable input (no-failing-input-found); it names the failed obligation and the verifier output only')
        return 2
    print(out[-3000:])
    print('REPLAY: %s' % {0: 'PASSES (the recorded input no longer violates the clause)', 1: 'FAILS (violation reproduced on the real code)', 2: 'could not be built'}[rc])
    return rc


if __name__ == '__main__':
    sys.exit(run(sys.argv[1], os.environ.get('VERIF_REPO', '/repo')))
