#!/usr/bin/env python3
"""Confirm a seeded change in a scratch worktree of /repo and record what was run:
   python3 tools/confirm_seed.py <seed id> [<worktree>]
 1. patch applies on the current HEAD of /repo;  2. with the patch the demo FAILS and the existing tests of the touched
 crate still PASS;  3. without the patch the demo PASSES.  Writes seeded/<id>/meta.json (keeps the author's meta as
 meta_agent.json).  The verdict of ./check is added separately by tools/eval_seed.py."""
import json
import os
import re
import subprocess
import sys

VERIF = os.path.dirname(os.path.dirname(os.path.abspath(__file__)))


def sh(cmd, cwd, env=None, timeout=5400):
    p = subprocess.run(cmd, cwd=cwd, shell=True, capture_output=True, text=True, timeout=timeout, env=env)
    return p.returncode, p.stdout + p.stderr


def main():
    sid = sys.argv[1]
    wt = sys.argv[2] if len(sys.argv) > 2 else '/tmp/evalwt'
    d = os.path.join(VERIF, 'seeded', sid)
    agent = json.load(open(os.path.join(d, 'meta_agent.json')))
    files = agent.get('files', [])
    crate = 'rln' if any(f.startswith('rln/') for f in files) else 'utils'
    pkg = 'rln' if crate == 'rln' else 'zerokit_utils'
    env = dict(os.environ)
    env['CARGO_NET_OFFLINE'] = 'true'
    env['CARGO_TARGET_DIR'] = os.environ.get('VERIF_SEED_TARGET', '/var/tmp/zkverif-cache/seed-target')
    env['RUST_BACKTRACE'] = '0'
    log = []
    sh('git checkout -q -- . && git clean -fdq -- utils/tests rln/tests', wt)
    rc, out = sh('git apply --check %s' % os.path.join(d, 'patch.diff'), wt)
    applies = rc == 0
    log.append('git apply --check: rc=%d' % rc)
    res = {'applies_on_head': applies}
    if applies:
        sh('git apply %s' % os.path.join(d, 'patch.diff'), wt)
        demo_dst = os.path.join(wt, crate, 'tests', 'verif_seed_demo.rs')
        open(demo_dst, 'w').write(open(os.path.join(d, 'demo.rs')).read())
        cmd_demo = 'cargo test -p %s --offline --test verif_seed_demo' % pkg
        rc, out = sh(cmd_demo, wt, env)
        res['demo_with_patch'] = 'FAILS' if (rc != 0 and 'test result: FAILED' in out) else ('PASSES' if rc == 0 else 'DID NOT BUILD')
        res['demo_with_patch_tail'] = '\n'.join([l for l in out.split('\n') if re.search(r'^test |test result|panicked', l)][-12:])
        log.append(cmd_demo + ' (with patch): ' + res['demo_with_patch'])
        os.remove(demo_dst)
        cmd_suite = 'cargo test -p %s --offline --no-fail-fast' % pkg
        rc, out = sh(cmd_suite, wt, env)
        failed = [l for l in out.split('\n') if re.search(r'^test .* FAILED', l) and 'test_groth16_proofs_performance_ffi' not in l]
        res['existing_tests_with_patch'] = 'PASS' if (not failed and 'test result: ok' in out and 'error: could not compile' not in out) else 'FAIL: ' + '; '.join(failed[:5])
        log.append(cmd_suite + ' (with patch): ' + res['existing_tests_with_patch'])
        if crate == 'utils':
            rc, out = sh('cargo test -p rln --offline --test poseidon_tree', wt, env)
            res['rln_poseidon_tree_with_patch'] = 'PASS' if rc == 0 else 'FAIL'
            log.append('cargo test -p rln --offline --test poseidon_tree (with patch): ' + res['rln_poseidon_tree_with_patch'])
        sh('git checkout -q -- .', wt)
        open(demo_dst, 'w').write(open(os.path.join(d, 'demo.rs')).read())
        rc, out = sh(cmd_demo, wt, env)
        res['demo_without_patch'] = 'PASSES' if rc == 0 else 'FAILS'
        log.append(cmd_demo + ' (clean tree): ' + res['demo_without_patch'])
        os.remove(demo_dst)
    sh('git checkout -q -- . && git clean -fdq -- utils/tests rln/tests', wt)
    head = subprocess.run(['git', '-C', wt, 'rev-parse', '--short', 'HEAD'], capture_output=True, text=True).stdout.strip()
    meta_path = os.path.join(d, 'meta.json')
    meta = json.load(open(meta_path)) if os.path.exists(meta_path) else {}
    meta.update({
        'id': sid,
        'property': agent.get('property'),
        'summary': agent.get('summary'),
        'files': files,
        'needs_to_manifest': agent.get('needs_to_manifest'),
        'author': 'independent sub-agent given only the property text and a scratch worktree',
        'confirmed_on_repo_commit': head,
        'confirmation': res,
        'what_was_run': log,
        'valid': bool(applies and res.get('demo_with_patch') == 'FAILS' and res.get('demo_without_patch') == 'PASSES'
                      and str(res.get('existing_tests_with_patch', '')).startswith('PASS')),
    })
    json.dump(meta, open(meta_path, 'w'), indent=1)
    print(sid, 'valid' if meta['valid'] else 'NOT VALID', json.dumps(res)[:400])


if __name__ == '__main__':
    main()
