#!/usr/bin/env python3
"""Regenerates the harness list of unit optimal_tree_kani: one CONCRETE shape per Kani harness.
   python3 tools/mk_optimal_kani.py
Rewrites the //@@GENERATED block of kani/optimal_tree.rs and the "harnesses" list of the unit in specs/units.json.
(Several shapes in one harness share one SAT query and made it super-linearly harder; one shape per harness is both faster
and lets a failure name the exact shape.)  Run by hand when the shape lists below change; the outputs are committed."""
import json
import os
import re

VERIF = os.path.dirname(os.path.dirname(os.path.abspath(__file__)))
MAX = 'usize::MAX'


def nm(x):
    return 'max' if x == MAX else str(x)


T = ['C06', 'C07', 'C08', 'C15']
H = []   # (name, unwind, body, tier, function, bound, covers)


def add(name, unwind, body, tier, function, bound, covers):
    H.append((name, unwind, body, tier, function, bound, covers))


ASSUMED = 'OptimalMerkleTree::set_range contract ASSUMED by Verus (enumerate over a generic iterator)'
SECOND = 'second opinion for the Verus-verified OptimalMerkleTree::%s (does not depend on how the body is written)'

# ---- set_range, depth 2 (capacity 4) ----
QUICK_SR = {(0, 3), (0, 5), (1, 4), (1, MAX), (2, 0), (2, 1), (2, 3), (3, 0), (3, 1), (3, 2), (4, 0)}
for n in range(0, 6):
    for st in [0, 1, 2, 3, 4, 5, MAX]:
        tier = 'quick' if (n, st) in QUICK_SR else 'thorough'
        add('sr_d2_w%d_s%s' % (n, nm(st)), 10, 'set_range_one(2, %d, %s);' % (n, st), tier, 'set_range',
            'depth 2, every wf state (symbolic leaves, flags, mark, presence of default nodes); %d written leaves at start %s' % (n, nm(st)), ASSUMED)
# depth 3: the odd-length batches that cross subtree boundaries
for n, starts in [(3, [0, 2, 3, 5, 6]), (5, [0, 1, 3, 4]), (8, [0]), (2, [7])]:
    for st in starts:
        add('sr_d3_w%d_s%s' % (n, nm(st)), 18, 'set_range_one(3, %d, %s);' % (n, st), 'thorough', 'set_range',
            'depth 3, every wf state; %d written leaves at start %s' % (n, nm(st)), ASSUMED)

# ---- override_range, depth 2 ----
def ov(n, m, st, ra, tier):
    ra2 = list(ra) + [0] * (2 - len(ra))
    add('ov_d2_w%d_r%d_s%s_i%s' % (n, m, nm(st), '_'.join(nm(x) for x in ra[:m]) or 'none'), 10,
        'override_range_one(2, %d, %d, %s, [%s, %s]);' % (n, m, st, ra2[0], ra2[1]), tier, 'override_range',
        'depth 2, every wf state; %d written at start %s, removal indices %s' % (n, nm(st), [nm(x) for x in ra[:m]]), SECOND % 'override_range')


QUICK_OV = [(2, 1, 0, [3]), (2, 1, 2, [0]), (2, 1, 1, [4]), (1, 2, 1, [3, 1]), (1, 2, 3, [0, 0]), (0, 2, 4, [0, 1]), (0, 1, 5, [0])]
seen = set()
for (n, m, st, ra) in QUICK_OV:
    ov(n, m, st, ra, 'quick')
    seen.add((n, m, st, tuple(ra)))
for st in [0, 1, 2, 3, 4]:
    for r in [0, 1, 2, 3, 4]:
        if (2, 1, st, (r,)) not in seen:
            ov(2, 1, st, [r], 'thorough')
for st in [0, 1, 2, 3, 4, MAX]:
    for r in [0, 1, 2, 3, 4, MAX]:
        ov(1, 1, st, [r], 'thorough')
for st in [0, 1, 3, 4]:
    for pr in [[0, 0], [1, 3], [3, 1], [2, 4], [0, 3]]:
        if (1, 2, st, tuple(pr)) not in seen:
            ov(1, 2, st, pr, 'thorough')
for st in [0, 4, 5]:
    for pr in [[0, 1], [3, 3], [2, 0], [4, 1]]:
        if (0, 2, st, tuple(pr)) not in seen:
            ov(0, 2, st, pr, 'thorough')
for st in [0, 2, 4, 5]:
    ov(1, 0, st, [], 'thorough')

# ---- single-leaf mutators, observers ----
for i in [0, 1, 2, 3, 4, 5, MAX]:
    q = 'quick' if i in (0, 3, 4, MAX) else 'thorough'
    add('set_d2_i%s' % nm(i), 10, 'set_one(2, %s);' % i, q, 'set', 'depth 2, every wf state, index %s' % nm(i), SECOND % 'set')
    q = 'quick' if i in (0, 3, 4) else 'thorough'
    add('del_d2_i%s' % nm(i), 10, 'delete_one(2, %s);' % i, q, 'delete', 'depth 2, every wf state, index %s' % nm(i), SECOND % 'delete')
    add('obs_d2_i%s' % nm(i), 10, 'observers_one(2, %s);' % i, q, 'observers', 'depth 2, every wf state, index %s' % nm(i),
        'get / root / get_subtree_root / proof / verify / compute_root against the ideal tree')
for m in [0, 1, 2, 3, 4]:
    q = 'quick' if m in (0, 3, 4) else 'thorough'
    add('app_d2_m%d' % m, 10, 'update_next_one(2, %d);' % m, q, 'update_next', 'depth 2, every wf state with mark %d' % m, SECOND % 'update_next')
add('new_contract_d2', 10, 'new_contract(2);', 'quick', 'new', 'depth 2', SECOND % 'new')
add('new_contract_d3', 18, 'new_contract(3);', 'thorough', 'new', 'depth 3', SECOND % 'new')


def main():
    p = os.path.join(VERIF, 'kani', 'optimal_tree.rs')
    s = open(p).read()
    gen = ''.join('    #[kani::proof]\n    #[kani::unwind(%d)]\n    fn %s() { %s }\n' % (u, n, b) for (n, u, b, _, _, _, _) in H)
    s = re.sub(r'    //@@GENERATED-BEGIN\n.*?    //@@GENERATED-END\n', lambda m: '    //@@GENERATED-BEGIN\n' + gen + '    //@@GENERATED-END\n', s, flags=re.S)
    open(p, 'w').write(s)
    up = os.path.join(VERIF, 'specs', 'units.json')
    U = json.load(open(up))
    u = U['units']['optimal_tree_kani']
    hs = [{'name': 'generator_is_wf_d2', 'tags': T, 'tier': 'quick', 'function': 'vocabulary', 'bound': 'depth 2',
           'covers': 'generated wf states equal the ideal tree of their leaves'}]
    for (n, _, _, tier, fn, bound, covers) in H:
        tags = ['C06', 'C07', 'C15'] if fn in ('observers', 'new') else T
        hs.append({'name': n, 'tags': tags, 'tier': tier, 'function': fn, 'bound': bound, 'covers': covers})
    u['harnesses'] = hs
    json.dump(U, open(up, 'w'), indent=1)
    print(len(hs), 'harnesses;', len([h for h in hs if h['tier'] == 'quick']), 'quick')


if __name__ == '__main__':
    main()
