#!/usr/bin/env python3
"""Run the registered quick check of a seeded change's property against /repo with the patch applied
(git -C /repo apply; undone straight afterwards) and record the verdict in seeded/<id>/meta.json.
   python3 tools/eval_seed.py <seed id> [--tier quick|thorough] [--units a,b] [--worktree <dir>]
With --worktree the patch is applied to that scratch worktree of /repo instead (VERIF_REPO=<dir>), so that /repo itself stays
untouched and several seeds can be evaluated at once."""
import json
import os
import re
import subprocess
import sys

VERIF = os.path.dirname(os.path.dirname(os.path.abspath(__file__)))
REPO = '/repo'


def main():
    sid = sys.argv[1]
    tier = 'quick'
    units = None
    if '--tier' in sys.argv:
        tier = sys.argv[sys.argv.index('--tier') + 1]
    if '--units' in sys.argv:
        units = sys.argv[sys.argv.index('--units') + 1]
    global REPO
    if '--worktree' in sys.argv:
        REPO = sys.argv[sys.argv.index('--worktree') + 1]
    d = os.path.join(VERIF, 'seeded', sid)
    meta = json.load(open(os.path.join(d, 'meta.json')))
    prop = meta['property']
    st = subprocess.run(['git', '-C', REPO, 'status', '--porcelain', '--untracked-files=no'], capture_output=True, text=True).stdout.strip()
    if st:
        print('refusing: /repo has uncommitted changes')
        sys.exit(2)
    try:
        subprocess.run(['git', '-C', REPO, 'apply', os.path.join(d, 'patch.diff')], check=True)
        cmd = [os.path.join(VERIF, 'check'), prop, '--tier', tier]
        if units:
            cmd += ['--units', units]
        env = dict(os.environ)
        env['VERIF_REPO'] = REPO
        env['VERIF_EVIDENCE_DIR'] = '/var/tmp/zkverif-seed-evidence'   # do not overwrite the committed evidence with a mutant run
        p = subprocess.run(cmd, cwd=VERIF, capture_output=True, text=True, env=env)
    finally:
        subprocess.run(['git', '-C', REPO, 'checkout', '--', '.'])
    out = p.stdout
    viol = sorted(set(re.findall(r'failed obligation: (\S+)', out)))
    undec = [l for l in out.split('\n') if l.startswith('UNDECIDED')]
    verdict = {1: 'CAUGHT', 0: 'MISSED', 2: 'UNDECIDED'}.get(p.returncode, 'rc=%d' % p.returncode)
    meta.setdefault('checks', {})[tier + (':' + units if units else '')] = {
        'command': ' '.join(cmd), 'exit': p.returncode, 'verdict': verdict,
        'failed_obligations': viol[:12], 'undecided_reason': [u[:300] for u in undec[:3]],
        'violation_lines': [l for l in out.split('\n') if l.startswith('VIOLATION')][:4],
    }
    json.dump(meta, open(os.path.join(d, 'meta.json'), 'w'), indent=1)
    print(sid, prop, verdict, viol[:3], [u[:160] for u in undec[:1]])


if __name__ == '__main__':
    main()
