#!/usr/bin/env python3
"""Prints the markdown table of seeded changes and the verdict of ./check recorded in seeded/<id>/meta.json
   python3 tools/seed_table.py [suffix]      (suffix '3' = third wave only)"""
import glob
import json
import os
import sys

VERIF = os.path.dirname(os.path.dirname(os.path.abspath(__file__)))
suffix = sys.argv[1] if len(sys.argv) > 1 else ''
print('| seed | property | change | valid | verdict of `./check` (quick) | failing obligation(s) / reason |')
print('|---|---|---|---|---|---|')
tot = {}
for d in sorted(glob.glob(os.path.join(VERIF, 'seeded', '*' + suffix, ''))):
    m = json.load(open(os.path.join(d, 'meta.json')))
    ch = m.get('checks', {}).get('quick', {})
    v = ch.get('verdict', 'not run')
    tot[v] = tot.get(v, 0) + 1
    why = '; '.join(ch.get('failed_obligations', [])[:3]) or '; '.join(x[:160] for x in ch.get('undecided_reason', [])[:1])
    print('| `%s` | %s | %s | %s | **%s** | %s |' % (m['id'], m['property'], (m.get('summary') or '')[:170].replace('|', '/').replace('\n', ' '),
                                                 'yes' if m.get('valid') else 'NO', v, why.replace('|', '/')))
print()
print('Totals:', ', '.join('%s %d' % kv for kv in sorted(tot.items())))
