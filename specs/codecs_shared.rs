// ---- codecs_shared: the byte codecs that BOTH units (codecs, verify_api) need as callees ----
// Real functions of rln/src/utils.rs and rln/src/protocol.rs, copied byte for byte and VERIFIED in every unit
// that includes this file (nothing here is assumed in one unit and proved in another).
// bytes_le_to_fr and deserialize_proof_values are infallible helpers that slice their input: they carry the honest
// precondition "input long enough", named `short-input-no-panic`; every call site (the entry points of unit verify_api,
// the decoders of unit codecs) has to prove it, and a caller that cannot fails under that clause name.

mod color_eyre { pub use super::Report; }

//@item rln/src/protocol.rs struct RLNProofValues

//@fn rln/src/utils.rs fr_byte_size
//@tags C10
//@ret r
//@contract
    ensures r == 32,   //# fr-width-is-32-bytes
//@end

//@fn rln/src/utils.rs bytes_le_to_fr
//@tags C10 C13 C09 C14 C02 C03
//@ret r
//@contract
    requires input@.len() >= 32,   //# short-input-no-panic
    ensures r.1 == 32,   //# fr-decoder-reads-32-bytes
            r.0.view() == dec_fr(input@, 0),   //# fr-decoder-value-is-le-mod-p
//@end

//@fn rln/src/utils.rs fr_to_bytes_le
//@tags C10 C09 C14 C03
//@ret r
//@contract
    ensures r@.len() == 32,   //# fr-encoder-width-32
            le_nat(r@) == input.view(),   //# fr-encoder-le-value
            r@ == fr_bytes(*input),   //# fr-encoder-layout
//@before `res.resize(`
    let ghost pre = res@;
    proof {
        axiom_fr_view_bound(*input); lemma_p_lt_pow256_32();
        if input.view() > 0 { lemma_minimal_len(pre, 32); }
    }
//@afterstmt `res.resize(`
    proof {
        assert(res@ =~= pre + zeros((32 - pre.len()) as nat));
        lemma_le_nat_pad(pre, (32 - pre.len()) as nat);
        lemma_fr_bytes_unique(res@, *input);
    }
//@end

//@fn rln/src/utils.rs normalize_usize
//@tags C10
//@ret r
//@attr external_body
//@contract
    // ASSUMED in Verus (`usize::to_le_bytes` has an unnameable array type and `&mut bytes[..n]` is not supported);
    // CHECKED on the real compiled function by Kani, loop-free, every usize: unit codecs_kani, harness
    // normalize_usize_is_le64 (complete).
    ensures r@ == le64(input as nat),   //# usize-is-8-byte-le
//@end

//@fn rln/src/utils.rs vec_fr_to_bytes_le
//@attr loop_isolation(false)
//@tags C10
//@ret r
//@subst `for el in input` => `for el in it: input`
//@contract
    // (the substitution only NAMES the ghost iterator of the loop so that the invariant can speak about the
    //  iteration position; it does not change what is iterated)
    ensures r.is_ok(),   //# vec-fr-encoder-never-fails
            r->Ok_0@ == vec_fr_bytes(input@),   //# vec-fr-layout-count-then-elements
//@bodystart
    proof { axiom_live_frs(input@); }
//@before `for el in`
    proof { assert(input@.subrange(0, 0) =~= Seq::<Fr>::empty()); assert(bytes@ =~= le64(input@.len()) + frs_bytes(input@.subrange(0, 0))); }
//@loop 1
        invariant
            0 <= it.index@ <= input@.len(),
            bytes@ == le64(input@.len()) + frs_bytes(input@.subrange(0, it.index@)),
//@afterstmt `bytes.extend_from_slice(&fr_to_bytes_le`
        proof {
            let i = it.index@;
            assert(input@.subrange(0, i + 1) =~= input@.subrange(0, i).push(input@[i]));
            lemma_frs_bytes_push(input@.subrange(0, i), input@[i]);
            assert(bytes@ =~= le64(input@.len()) + frs_bytes(input@.subrange(0, i + 1)));
        }
//@before `Ok(bytes)`
    proof { assert(input@.subrange(0, input@.len() as int) =~= input@); }
//@end

//@fn rln/src/utils.rs vec_u8_to_bytes_le
//@tags C10
//@ret r
//@contract
    ensures r.is_ok(),   //# vec-u8-encoder-never-fails
            r->Ok_0@ == vec_u8_bytes(input@),   //# vec-u8-layout-count-then-bytes
//@bodystart
    proof { axiom_live_bytes(input@); }
//@end

// [ root<32> | external_nullifier<32> | x<32> | y<32> | nullifier<32> ]
pub open spec fn proof_values_bytes(v: RLNProofValues) -> Seq<u8> {
    fr_bytes(v.root) + fr_bytes(v.external_nullifier) + fr_bytes(v.x) + fr_bytes(v.y) + fr_bytes(v.nullifier)
}

// v is what the documented layout of s reads
pub open spec fn proof_values_read_from(v: RLNProofValues, s: Seq<u8>) -> bool {
    &&& v.root.view() == dec_fr(s, 0) &&& v.external_nullifier.view() == dec_fr(s, 32) &&& v.x.view() == dec_fr(s, 64)
    &&& v.y.view() == dec_fr(s, 96) &&& v.nullifier.view() == dec_fr(s, 128)
}
// all five encodings are canonical (below the field order)
pub open spec fn proof_values_canonical(s: Seq<u8>) -> bool {
    canonical_at(s, 0) && canonical_at(s, 32) && canonical_at(s, 64) && canonical_at(s, 96) && canonical_at(s, 128)
}

//@fn rln/src/protocol.rs deserialize_proof_values
//@tags C10 C13 C02 C03
//@ret r
//@contract
    requires serialized@.len() >= 160,   //# short-input-no-panic
    ensures r.1 == 160,   //# proof-values-decoder-reads-160-bytes
            proof_values_read_from(r.0, serialized@),   //# proof-values-decoder-layout
//@bodystart
    proof {
        let s = serialized@; let n = s.len() as int;
        assert(s.subrange(0, n).subrange(0, 32) =~= s.subrange(0, 32));
        assert(s.subrange(32, n).subrange(0, 32) =~= s.subrange(32, 64));
        assert(s.subrange(64, n).subrange(0, 32) =~= s.subrange(64, 96));
        assert(s.subrange(96, n).subrange(0, 32) =~= s.subrange(96, 128));
        assert(s.subrange(128, n).subrange(0, 32) =~= s.subrange(128, 160));
    }
//@end

//@fn rln/src/protocol.rs serialize_proof_values
//@tags C10
//@ret r
//@contract
    ensures r@ == proof_values_bytes(*rln_proof_values),   //# proof-values-layout
            r@.len() == 160,   //# proof-values-width-160
//@bodystart
    proof { lemma_fr_bytes(rln_proof_values.root); lemma_fr_bytes(rln_proof_values.external_nullifier); lemma_fr_bytes(rln_proof_values.x);
            lemma_fr_bytes(rln_proof_values.y); lemma_fr_bytes(rln_proof_values.nullifier); }
//@end

//@region roundtrip_shared C10 C13
// reading the documented encoding of a field element / of the proof values gives the value back, and such an encoding is
// canonical (below the field order): this is what makes "re-encode and compare" a canonicality check
pub proof fn lemma_rt_fr_at(s: Seq<u8>, off: int, x: Fr)
    requires 0 <= off, off + 32 <= s.len(), s.subrange(off, off + 32) == fr_bytes(x)
    ensures dec_fr(s, off) == x.view(), canonical_at(s, off)
{ lemma_fr_bytes(x); }
pub proof fn lemma_rt_proof_values(s: Seq<u8>, v: RLNProofValues)
    requires starts_with(s, proof_values_bytes(v))
    ensures s.len() >= 160,
            dec_fr(s, 0) == v.root.view(), dec_fr(s, 32) == v.external_nullifier.view(), dec_fr(s, 64) == v.x.view(),
            dec_fr(s, 96) == v.y.view(), dec_fr(s, 128) == v.nullifier.view(),
            canonical_at(s, 0) && canonical_at(s, 32) && canonical_at(s, 64) && canonical_at(s, 96) && canonical_at(s, 128),
{
    lemma_fr_bytes(v.root); lemma_fr_bytes(v.external_nullifier); lemma_fr_bytes(v.x); lemma_fr_bytes(v.y); lemma_fr_bytes(v.nullifier);
    let e = proof_values_bytes(v);
    assert(e.len() == 160);
    assert(s.subrange(0, 32) =~= e.subrange(0, 32));       assert(e.subrange(0, 32) =~= fr_bytes(v.root));
    assert(s.subrange(32, 64) =~= e.subrange(32, 64));     assert(e.subrange(32, 64) =~= fr_bytes(v.external_nullifier));
    assert(s.subrange(64, 96) =~= e.subrange(64, 96));     assert(e.subrange(64, 96) =~= fr_bytes(v.x));
    assert(s.subrange(96, 128) =~= e.subrange(96, 128));   assert(e.subrange(96, 128) =~= fr_bytes(v.y));
    assert(s.subrange(128, 160) =~= e.subrange(128, 160)); assert(e.subrange(128, 160) =~= fr_bytes(v.nullifier));
    lemma_rt_fr_at(s, 0, v.root); lemma_rt_fr_at(s, 32, v.external_nullifier); lemma_rt_fr_at(s, 64, v.x);
    lemma_rt_fr_at(s, 96, v.y); lemma_rt_fr_at(s, 128, v.nullifier);
}
//@endregion
