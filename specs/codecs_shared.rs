// ---- codecs_shared: the byte codecs that BOTH units (codecs, verify_api) need as callees ----
// Real functions of rln/src/utils.rs and rln/src/protocol.rs, copied byte for byte and VERIFIED in every unit
// that includes this file (nothing here is assumed in one unit and proved in another).
// Only the FUNCTIONAL variants live here: each decoder that slices its input without a length check carries
// the named precondition `short-input-no-panic`; a caller that cannot establish it fails under that clause
// name.  The `requires true` (no-panic) variants of the same functions are in codecs.rs.in.

mod color_eyre { pub use super::Report; }

//@item rln/src/protocol.rs struct RLNProofValues

//@fn rln/src/utils.rs fr_byte_size
//@tags C10
//@ret r
//@contract
    ensures r == 32,   //# fr-width-is-32-bytes
//@end

//@fn rln/src/utils.rs bytes_le_to_fr
//@tags C10 C13
//@ret r
//@contract
    requires input@.len() >= 32,   //# short-input-no-panic
    ensures r.1 == 32,   //# fr-decoder-reads-32-bytes
            r.0.view() == dec_fr(input@, 0),   //# fr-decoder-value-is-le-mod-p
//@end

//@fn rln/src/utils.rs fr_to_bytes_le
//@tags C10
//@ret r
//@contract
    ensures r@.len() == 32,   //# fr-encoder-width-32
            le_nat(r@) == input.view(),   //# fr-encoder-le-value
            r@ == fr_bytes(*input),   //# fr-encoder-layout
//@before `res.resize(`
    let ghost pre = res@;
    proof {
        axiom_fr_view_bound(*input); lemma_p_lt_pow256_32();
        if input.view() > 0 { lemma_minimal_len(pre, 32); }
    }
//@afterstmt `res.resize(`
    proof {
        assert(res@ =~= pre + zeros((32 - pre.len()) as nat));
        lemma_le_nat_pad(pre, (32 - pre.len()) as nat);
        lemma_fr_bytes_unique(res@, *input);
    }
//@end

//@fn rln/src/utils.rs normalize_usize
//@tags C10
//@ret r
//@attr external_body
//@contract
    // ASSUMED in Verus (`usize::to_le_bytes` has an unnameable array type and `&mut bytes[..n]` is not supported);
    // CHECKED on the real compiled function by Kani, loop-free, every usize: unit codecs_kani, harness
    // normalize_usize_is_le64 (complete).
    ensures r@ == le64(input as nat),   //# usize-is-8-byte-le
//@end

//@fn rln/src/utils.rs vec_fr_to_bytes_le
//@tags C10
//@ret r
//@subst `for el in input` => `for el in it: input`
//@contract
    // (the substitution only NAMES the ghost iterator of the loop so that the invariant can speak about the
    //  iteration position; it does not change what is iterated)
    ensures r.is_ok(),   //# vec-fr-encoder-never-fails
            r->Ok_0@ == vec_fr_bytes(input@),   //# vec-fr-layout-count-then-elements
//@bodystart
    proof { axiom_live_frs(input@); }
//@before `for el in`
    proof { assert(input@.subrange(0, 0) =~= Seq::<Fr>::empty()); assert(bytes@ =~= le64(input@.len()) + frs_bytes(input@.subrange(0, 0))); }
//@loop 1
        invariant
            0 <= it.index@ <= input@.len(),
            bytes@ == le64(input@.len()) + frs_bytes(input@.subrange(0, it.index@)),
//@afterstmt `bytes.extend_from_slice(&fr_to_bytes_le(el))`
        proof {
            let i = it.index@;
            assert(input@.subrange(0, i + 1) =~= input@.subrange(0, i).push(input@[i]));
            lemma_frs_bytes_push(input@.subrange(0, i), input@[i]);
            assert(bytes@ =~= le64(input@.len()) + frs_bytes(input@.subrange(0, i + 1)));
        }
//@before `Ok(bytes)`
    proof { assert(input@.subrange(0, input@.len() as int) =~= input@); }
//@end

//@fn rln/src/utils.rs vec_u8_to_bytes_le
//@tags C10
//@ret r
//@contract
    ensures r.is_ok(),   //# vec-u8-encoder-never-fails
            r->Ok_0@ == vec_u8_bytes(input@),   //# vec-u8-layout-count-then-bytes
//@bodystart
    proof { axiom_live_bytes(input@); }
//@end

// [ root<32> | external_nullifier<32> | x<32> | y<32> | nullifier<32> ]
pub open spec fn proof_values_bytes(v: RLNProofValues) -> Seq<u8> {
    fr_bytes(v.root) + fr_bytes(v.external_nullifier) + fr_bytes(v.x) + fr_bytes(v.y) + fr_bytes(v.nullifier)
}

// v is what the documented layout of s reads
pub open spec fn proof_values_read_from(v: RLNProofValues, s: Seq<u8>) -> bool {
    &&& v.root.view() == dec_fr(s, 0) &&& v.external_nullifier.view() == dec_fr(s, 32) &&& v.x.view() == dec_fr(s, 64)
    &&& v.y.view() == dec_fr(s, 96) &&& v.nullifier.view() == dec_fr(s, 128)
}
// all five encodings are canonical (below the field order)
pub open spec fn proof_values_canonical(s: Seq<u8>) -> bool {
    canonical_at(s, 0) && canonical_at(s, 32) && canonical_at(s, 64) && canonical_at(s, 96) && canonical_at(s, 128)
}

//@fn rln/src/protocol.rs deserialize_proof_values
//@tags C10 C13
//@ret r
//@contract
    requires serialized@.len() >= 160,   //# short-input-no-panic
    ensures r.1 == 160,   //# proof-values-decoder-reads-160-bytes
            proof_values_read_from(r.0, serialized@),   //# proof-values-decoder-layout
//@bodystart
    proof {
        let s = serialized@; let n = s.len() as int;
        assert(s.subrange(0, n).subrange(0, 32) =~= s.subrange(0, 32));
        assert(s.subrange(32, n).subrange(0, 32) =~= s.subrange(32, 64));
        assert(s.subrange(64, n).subrange(0, 32) =~= s.subrange(64, 96));
        assert(s.subrange(96, n).subrange(0, 32) =~= s.subrange(96, 128));
        assert(s.subrange(128, n).subrange(0, 32) =~= s.subrange(128, 160));
    }
//@end
