// ---- codecs_vec_decoders: the two TOTAL vector decoders of rln/src/utils.rs (real functions, verified in every unit that
// includes this file: codecs, tree_api) and the spec reading of what they decode ----
// the input is long enough for the byte vector it declares
pub open spec fn vec_u8_fits(s: Seq<u8>) -> bool { s.len() >= 8 && 8 + dec_u64(s, 0) <= s.len() }
// the input is long enough for the element vector it declares
pub open spec fn vec_fr_fits(s: Seq<u8>) -> bool { s.len() >= 8 && 8 + 32 * dec_u64(s, 0) <= s.len() }

//@fn rln/src/utils.rs bytes_le_to_vec_u8
//@tags C10 C13
//@ret r
//@subst `u64::from_le_bytes(` => `u64_from_le_bytes(`
//@contract
    requires true,
    ensures r.is_ok() == vec_u8_fits(input@),   //# vec-u8-decoder-accepts-iff-declared-length-fits
            r.is_ok() ==> r->Ok_0.0@ == input@.subrange(8, 8 + dec_u64(input@, 0)),   //# vec-u8-decoder-layout
            r.is_ok() ==> r->Ok_0.1 == 8 + dec_u64(input@, 0),   //# vec-u8-decoder-consumed
//@bodystart
    proof { lemma_slice_len(input); }
//@end

//@fn rln/src/utils.rs bytes_le_to_vec_fr
//@attr loop_isolation(false)
//@tags C10 C13
//@ret r
//@subst `u64::from_le_bytes(` => `u64_from_le_bytes(`
//@contract
    requires true,
    ensures r.is_ok() == vec_fr_fits(input@),   //# vec-fr-decoder-accepts-iff-declared-count-fits
            r.is_ok() ==> r->Ok_0.0@.len() == dec_u64(input@, 0),   //# vec-fr-decoder-count
            r.is_ok() ==> forall|i: int| 0 <= i < dec_u64(input@, 0) ==> (#[trigger] r->Ok_0.0@[i]).view() == dec_fr(input@, 8 + 32 * i),   //# vec-fr-decoder-layout
            r.is_ok() ==> r->Ok_0.1 == 8 + 32 * dec_u64(input@, 0),   //# vec-fr-decoder-consumed
//@bodystart
    proof { lemma_slice_len(input); }
//@loop 1
        invariant
            input@.len() <= usize::MAX, vec_fr_fits(input@), len == dec_u64(input@, 0), el_size == 32,
            res@.len() == i, read == 8 + 32 * i,
            forall|j: int| 0 <= j < i ==> (#[trigger] res@[j]).view() == dec_fr(input@, 8 + 32 * j),
//@before `let (curr_el`
        proof {
            let a = 8 + 32 * i;
            assert(input@.subrange(a, a + 32).subrange(0, 32) =~= input@.subrange(a, a + 32));
        }
//@end

// what the decoders return, as spec values (fr_of: the field element with that canonical value)
pub open spec fn dec_vec_fr(s: Seq<u8>) -> Seq<Fr> { Seq::new(dec_u64(s, 0) as nat, |i: int| fr_of(dec_fr(s, 8 + 32 * i))) }
pub open spec fn dec_vec_u8(s: Seq<u8>) -> Seq<u8> { s.subrange(8, 8 + dec_u64(s, 0)) }
// the decoded element vector IS dec_vec_fr
pub proof fn lemma_dec_vec_fr(s: Seq<u8>, v: Seq<Fr>)
    requires v.len() == dec_u64(s, 0), forall|i: int| 0 <= i < dec_u64(s, 0) ==> (#[trigger] v[i]).view() == dec_fr(s, 8 + 32 * i)
    ensures v == dec_vec_fr(s)
{
    assert forall|i: int| 0 <= i < v.len() implies v[i] == dec_vec_fr(s)[i] by { lemma_fr_of(v[i]); }
    assert(v =~= dec_vec_fr(s));
}
