// ---- prelude_fieldops: field ARITHMETIC of ark_bn254::Fr, Poseidon, Keccak and the RNGs as specification vocabulary ----
// Layered on prelude_common.rs and prelude_field.rs (which declares the type `Fr` with `view(): nat`, the modulus
// `P()`, `le_nat`, the order on Fr and the std conversions): include those two first.
// Needs in the including template (outside verus!):
//   use vstd::prelude::*; use vstd::arithmetic::div_mod::*; use vstd::arithmetic::mul::*;
// Everything in this file that is not proved is an ASSUMPTION about a dependency (ark-ff, tiny-keccak,
// rand_chacha, rand) or about the model; each one carries a comment `ASSUMED(dep|model)`.

// P() = 21888242871839275222246405745257275088548364400416034343698204186575808495617 (prelude_field.rs)
pub proof fn lemma_p_bounds()
    ensures 0x1_0000 < P(), P() < 0x1_0000_0000_0000_0000 * 0x1_0000_0000_0000_0000 * (0x1_0000_0000_0000_0000 * 0x1_0000_0000_0000_0000)
{
    assert(0x1_0000 < P() && P() < 0x1_0000_0000_0000_0000 * 0x1_0000_0000_0000_0000 * (0x1_0000_0000_0000_0000 * 0x1_0000_0000_0000_0000)) by (compute);
}

// ---- field operations on canonical representatives (nat < P) -----------------------------------
pub open spec fn f_add(a: nat, b: nat) -> nat { (a + b) % P() }
pub open spec fn f_sub(a: nat, b: nat) -> nat { ((a as int - b as int) % (P() as int)) as nat }
pub open spec fn f_mul(a: nat, b: nat) -> nat { (a * b) % P() }
// division is not defined (that would need the extended Euclid / Fermat inverse): it is the function
// characterised by axiom_f_div below
pub uninterp spec fn f_div(a: nat, b: nat) -> nat;

// ASSUMED(dep): ark-ff `a / b` for b != 0 is a * b^-1, i.e. the field element q with q * b == a
#[verifier::external_body]
pub proof fn axiom_f_div(a: nat, b: nat)
    requires a < P(), b < P(), b != 0
    ensures f_div(a, b) < P(), f_mul(f_div(a, b), b) == a
{}
// ASSUMED(model): P is prime, hence Z/P has no zero divisors (multiplication by c != 0 is injective)
#[verifier::external_body]
pub proof fn axiom_f_mul_cancel(a: nat, b: nat, c: nat)
    requires a < P(), b < P(), c < P(), c != 0, f_mul(a, c) == f_mul(b, c)
    ensures a == b
{}

// proved from the definitions -----------------------------------------------------------------
pub proof fn lemma_f_ranges(a: nat, b: nat)
    ensures f_add(a, b) < P(), f_sub(a, b) < P(), f_mul(a, b) < P()
{
    lemma_p_bounds();
    lemma_mod_bound((a + b) as int, P() as int);
    lemma_mod_bound(a as int - b as int, P() as int);
    lemma_mod_bound((a * b) as int, P() as int);
}
pub proof fn lemma_f_sub_zero_iff(a: nat, b: nat)
    requires a < P(), b < P()
    ensures f_sub(a, b) < P(), f_sub(a, b) == 0 <==> a == b
{
    lemma_p_bounds();
    let p = P() as int;
    let d = a as int - b as int;
    lemma_mod_bound(d, p);
    if a >= b { lemma_small_mod((a - b) as nat, P()); }
    else {
        lemma_mod_add_multiples_vanish(d, p);
        lemma_small_mod((d + p) as nat, P());
    }
}
pub proof fn lemma_f_mul_comm(a: nat, b: nat)
    ensures f_mul(a, b) == f_mul(b, a)
{
    lemma_mul_is_commutative(a as int, b as int);
}
// (a + m) - m == a
pub proof fn lemma_f_add_sub_cancel(a: nat, m: nat)
    requires a < P(), m < P()
    ensures f_sub(f_add(a, m), m) == a
{
    lemma_p_bounds();
    let p = P() as int;
    lemma_small_mod(m, P());
    lemma_small_mod(a, P());
    lemma_sub_mod_noop((a + m) as int, m as int, p);
}
// (a0 + x1*a1) - (a0 + x2*a1) == (x1 - x2) * a1
pub proof fn lemma_f_line_diff(a0: nat, a1: nat, x1: nat, x2: nat)
    requires a0 < P(), a1 < P(), x1 < P(), x2 < P()
    ensures f_sub(f_add(a0, f_mul(x1, a1)), f_add(a0, f_mul(x2, a1))) == f_mul(f_sub(x1, x2), a1)
{
    lemma_p_bounds();
    let p = P() as int;
    let u = (a0 + x1 * a1) as int; let v = (a0 + x2 * a1) as int;
    lemma_add_mod_noop(a0 as int, (x1 * a1) as int, p);
    lemma_add_mod_noop(a0 as int, ((x1 * a1) as int) % p, p);
    lemma_mod_twice((x1 * a1) as int, p);
    assert(f_add(a0, f_mul(x1, a1)) as int == u % p);
    lemma_add_mod_noop(a0 as int, (x2 * a1) as int, p);
    lemma_add_mod_noop(a0 as int, ((x2 * a1) as int) % p, p);
    lemma_mod_twice((x2 * a1) as int, p);
    assert(f_add(a0, f_mul(x2, a1)) as int == v % p);
    lemma_sub_mod_noop(u, v, p);
    assert(f_sub(f_add(a0, f_mul(x1, a1)), f_add(a0, f_mul(x2, a1))) as int == (u - v) % p);
    lemma_mul_is_distributive_sub_other_way(a1 as int, x1 as int, x2 as int);
    assert(u - v == (x1 as int - x2 as int) * a1 as int);
    lemma_mul_mod_noop_left(x1 as int - x2 as int, a1 as int, p);
    lemma_mod_bound(x1 as int - x2 as int, p);
}
// (q * c) / c == q   for c != 0        (from the two axioms)
pub proof fn lemma_f_div_of_mul(q: nat, c: nat)
    requires q < P(), c < P(), c != 0
    ensures f_div(f_mul(q, c), c) == q
{
    lemma_f_ranges(q, c);
    axiom_f_div(f_mul(q, c), c);
    axiom_f_mul_cancel(f_div(f_mul(q, c), c), q, c);
}
// Lagrange recovery of the constant term of a line through two points with different abscissae
pub proof fn lemma_f_recover_line(a0: nat, a1: nat, x1: nat, x2: nat)
    requires a0 < P(), a1 < P(), x1 < P(), x2 < P(), x1 != x2
    ensures ({
        let y1 = f_add(a0, f_mul(x1, a1)); let y2 = f_add(a0, f_mul(x2, a1));
        &&& f_sub(x1, x2) != 0
        &&& f_div(f_sub(y1, y2), f_sub(x1, x2)) == a1
        &&& f_sub(y1, f_mul(x1, f_div(f_sub(y1, y2), f_sub(x1, x2)))) == a0
    })
{
    let d = f_sub(x1, x2);
    lemma_f_sub_zero_iff(x1, x2);
    lemma_f_line_diff(a0, a1, x1, x2);
    lemma_f_mul_comm(d, a1);
    lemma_f_div_of_mul(a1, d);
    lemma_f_ranges(x1, a1);
    lemma_f_add_sub_cancel(a0, f_mul(x1, a1));
}

// ---- the operators of the field element type (the type itself: prelude_field.rs) --------------------
// ASSUMED(dep): ark-ff `+ - *` on Fp are the field operations on canonical values; they do not panic.
impl vstd::std_specs::ops::AddSpecImpl for Fr {
    open spec fn obeys_add_spec() -> bool { false }
    open spec fn add_req(self, rhs: Fr) -> bool { true }
    open spec fn add_spec(self, rhs: Fr) -> Fr { arbitrary() }
}
impl core::ops::Add for Fr {
    type Output = Fr;
    #[verifier::external_body]
    fn add(self, rhs: Fr) -> (r: Fr)
        ensures r.view() == f_add(self.view(), rhs.view())
    { unimplemented!() }
}
impl vstd::std_specs::ops::SubSpecImpl for Fr {
    open spec fn obeys_sub_spec() -> bool { false }
    open spec fn sub_req(self, rhs: Fr) -> bool { true }
    open spec fn sub_spec(self, rhs: Fr) -> Fr { arbitrary() }
}
impl core::ops::Sub for Fr {
    type Output = Fr;
    #[verifier::external_body]
    fn sub(self, rhs: Fr) -> (r: Fr)
        ensures r.view() == f_sub(self.view(), rhs.view())
    { unimplemented!() }
}
impl vstd::std_specs::ops::MulSpecImpl for Fr {
    open spec fn obeys_mul_spec() -> bool { false }
    open spec fn mul_req(self, rhs: Fr) -> bool { true }
    open spec fn mul_spec(self, rhs: Fr) -> Fr { arbitrary() }
}
impl core::ops::Mul for Fr {
    type Output = Fr;
    #[verifier::external_body]
    fn mul(self, rhs: Fr) -> (r: Fr)
        // both operand orders are stated (lemma_f_mul_comm proves them equal) so that hints written for `a * b` also serve `b * a`
        ensures r.view() == f_mul(self.view(), rhs.view()), r.view() == f_mul(rhs.view(), self.view())
    { unimplemented!() }
}
// ASSUMED(dep): ark-ff `a / b` is `a * b.inverse().unwrap()`: it PANICS when b is zero, which is why the
// divisor being non-zero is a precondition (`div_req`) that every call site has to discharge.
impl vstd::std_specs::ops::DivSpecImpl for Fr {
    open spec fn obeys_div_spec() -> bool { false }
    open spec fn div_req(self, rhs: Fr) -> bool { rhs.view() != 0 }
    open spec fn div_spec(self, rhs: Fr) -> Fr { arbitrary() }
}
impl core::ops::Div for Fr {
    type Output = Fr;
    #[verifier::external_body]
    fn div(self, rhs: Fr) -> (r: Fr)
        ensures r.view() == f_div(self.view(), rhs.view())
    { unimplemented!() }
}
// (PartialEq / PartialOrd of Fr: prelude_field.rs)   ark-ff's Fp is Eq
impl Eq for Fr {}
// ASSUMED(dep): Fr::from(small unsigned integer) is that integer (all of them are < P)
impl From<u8> for Fr {
    #[verifier::external_body]
    fn from(v: u8) -> (r: Fr) ensures r.view() == v as nat { unimplemented!() }
}
impl From<u16> for Fr {
    #[verifier::external_body]
    fn from(v: u16) -> (r: Fr) ensures r.view() == v as nat { unimplemented!() }
}
impl From<u32> for Fr {
    #[verifier::external_body]
    fn from(v: u32) -> (r: Fr) ensures r.view() == v as nat { unimplemented!() }
}
// ASSUMED(dep): Ord::min / Ord::max on Fr follow the order of the canonical integers (modelled as inherent methods)
impl Fr {
    #[verifier::external_body]
    pub fn min(self, other: Fr) -> (r: Fr) ensures r == (if self.view() <= other.view() { self } else { other }) { unimplemented!() }
    #[verifier::external_body]
    pub fn max(self, other: Fr) -> (r: Fr) ensures r == (if self.view() >= other.view() { self } else { other }) { unimplemented!() }
}
// (From<u64> for Fr: prelude_field.rs)

// ---- Poseidon ----------------------------------------------------------------------------------
// The permutation-based hash as an UNINTERPRETED function of the input sequence: everything proved
// with it holds for every function Poseidon could be (conformance to circomlib is property C09).
pub uninterp spec fn poseidon(input: Seq<Fr>) -> Fr;

// Re-declaration of utils::poseidon::Poseidon<Fr> as instantiated by rln/src/hashers.rs with ROUND_PARAMS
// (t = 2..=9, i.e. 1..=8 inputs), and of the `static POSEIDON: Lazy<Poseidon<Fr>>`.
pub struct Poseidon { }
impl Poseidon {
    // ASSUMED(dep): Poseidon::hash returns Ok(the hash) exactly when round parameters exist for t = len + 1
    // (`Err("No parameters found for inputs length ..")` otherwise); it does not panic.  (C09 is the place
    // where this contract is to be established on utils/src/poseidon.)
    #[verifier::external_body]
    pub fn hash(&self, inp: &[Fr]) -> (r: core::result::Result<Fr, String>)
        ensures 1 <= inp@.len() <= 8 ==> r == core::result::Result::<Fr, String>::Ok(poseidon(inp@)),
                !(1 <= inp@.len() <= 8) ==> r.is_err(),
    { unimplemented!() }
}
pub exec static POSEIDON: Poseidon ensures true { Poseidon{} }

// NAMED IDEALISATION (never assumed globally; lemmas that need it take it as a `requires`):
// Poseidon is injective on inputs of one arity.
pub open spec fn poseidon_injective() -> bool {
    forall|a: Seq<Fr>, b: Seq<Fr>| #![trigger poseidon(a), poseidon(b)]
        a.len() == b.len() && poseidon(a) == poseidon(b) ==> a =~= b
}

// ---- bytes -> integers, Keccak -----------------------------------------------------------------
// (le_nat, the little-endian value of a byte string: prelude_field.rs)
pub uninterp spec fn keccak256(input: Seq<u8>) -> Seq<u8>;

// Re-declaration of tiny_keccak::Keccak (v256 / update / finalize); `absorbed` is the ghost input so far.
// ASSUMED(dep): finalize writes Keccak-256 of everything absorbed.  The real `finalize` takes `&mut [u8]`
// and fills it from the 32-byte digest; every call in rln passes a `[u8; 32]`, which is what is modelled
// (so keccak256(..) has length 32 by the type of the output buffer).
pub struct Keccak { pub ghost absorbed: Seq<u8> }
impl Keccak {
    #[verifier::external_body]
    pub fn v256() -> (r: Keccak)
        ensures r.absorbed == Seq::<u8>::empty()
    { unimplemented!() }
    #[verifier::external_body]
    pub fn update(&mut self, input: &[u8])
        ensures final(self).absorbed == old(self).absorbed + input@
    { unimplemented!() }
    #[verifier::external_body]
    pub fn finalize(self, output: &mut [u8; 32])
        ensures final(output)@ == keccak256(self.absorbed)
    { unimplemented!() }
}

// ---- random number generators ------------------------------------------------------------------
// An RNG is an opaque state; drawing a field element is an uninterpreted function of the state.
#[verifier::external_body]
pub struct RngState { }
pub uninterp spec fn chacha_from_seed(seed: Seq<u8>) -> RngState;
pub uninterp spec fn fr_rand(st: RngState) -> (Fr, RngState);

pub trait RngModel {
    spec fn state(&self) -> RngState;
    // false: nothing is known about what the generator returns (OS-seeded thread RNG)
    spec fn deterministic() -> bool;
}
// Re-declaration of rand::rngs::ThreadRng / ark_std::rand::thread_rng(): UNCONSTRAINED
#[verifier::external_body]
pub struct ThreadRng { }
impl RngModel for ThreadRng {
    uninterp spec fn state(&self) -> RngState;
    open spec fn deterministic() -> bool { false }
}
// ASSUMED(dep): thread_rng() returns a handle and does not panic
#[verifier::external_body]
pub fn thread_rng() -> ThreadRng { unimplemented!() }

// Re-declaration of rand_chacha::ChaCha20Rng
#[verifier::external_body]
pub struct ChaCha20Rng { }
impl RngModel for ChaCha20Rng {
    uninterp spec fn state(&self) -> RngState;
    open spec fn deterministic() -> bool { true }
}
impl ChaCha20Rng {
    // ASSUMED(dep): SeedableRng::from_seed is a pure function of the 32 seed bytes
    #[verifier::external_body]
    pub fn from_seed(seed: [u8; 32]) -> (r: ChaCha20Rng)
        ensures r.state() == chacha_from_seed(seed@)
    { unimplemented!() }
}
impl Fr {
    // Re-declaration of <Fr as ark_std::UniformRand>::rand.
    // ASSUMED(dep): for a deterministic generator the element drawn and the next state are functions of
    // the current state alone (rejection sampling on the generator's output stream); no panic.
    #[verifier::external_body]
    pub fn rand<R: RngModel>(rng: &mut R) -> (r: Fr)
        ensures R::deterministic() ==> (r, final(rng).state()) == fr_rand(old(rng).state())
    { unimplemented!() }
}
