// ---- prelude_field: byte-codec vocabulary: little-endian values, the scalar field model, std/dep specs ----
// (units codecs, verify_api).  Everything marked ASSUMED is an assumption on std / a dependency / the model;
// everything else in this file is proved by Verus on every run.

// ---------------------------------------------------------------------------------------------
// little-endian byte strings
// ---------------------------------------------------------------------------------------------
pub open spec fn pow256(n: nat) -> nat decreases n { if n == 0 { 1 } else { 256 * pow256((n - 1) as nat) } }

// value of a little-endian byte string
pub open spec fn le_nat(s: Seq<u8>) -> nat decreases s.len() {
    if s.len() == 0 { 0 } else { (s[0] as nat) + 256 * le_nat(s.subrange(1, s.len() as int)) }
}
// the n-byte little-endian encoding of x (x mod 256^n): what an independent encoder writes
pub open spec fn le_bytes(x: nat, n: nat) -> Seq<u8> decreases n {
    if n == 0 { Seq::<u8>::empty() } else { seq![(x % 256) as u8] + le_bytes(x / 256, (n - 1) as nat) }
}
pub open spec fn zeros(k: nat) -> Seq<u8> { Seq::new(k, |i: int| 0u8) }

pub proof fn lemma_pow256_pos(n: nat) ensures pow256(n) > 0 decreases n {
    if n > 0 { lemma_pow256_pos((n - 1) as nat); }
}
pub proof fn lemma_pow256_add(a: nat, b: nat) ensures pow256(a + b) == pow256(a) * pow256(b) decreases a {
    if a == 0 { assert(pow256(a) == 1); assert(1 * pow256(b) == pow256(b)); } else {
        let a1 = (a - 1) as nat;
        lemma_pow256_add(a1, b);
        assert(pow256(a + b) == 256 * pow256(a1 + b));
        assert(pow256(a) == 256 * pow256(a1));
        let x = pow256(a1); let y = pow256(b);
        assert(256 * (x * y) == (256 * x) * y) by (nonlinear_arith);
    }
}
pub proof fn lemma_pow256_mono(a: nat, b: nat) requires a <= b ensures pow256(a) <= pow256(b) decreases b - a {
    if a < b { lemma_pow256_mono(a, (b - 1) as nat); lemma_pow256_pos((b - 1) as nat); }
}
pub proof fn lemma_pow256_values()
    ensures pow256(1) == 256, pow256(8) == 0x1_0000_0000_0000_0000, pow256(16) == 0x1_0000_0000_0000_0000 * 0x1_0000_0000_0000_0000,
            pow256(32) == pow256(16) * pow256(16),
{
    reveal_with_fuel(pow256, 10);
    lemma_pow256_add(8, 8); lemma_pow256_add(16, 16);
}

pub proof fn lemma_le_nat_bound(s: Seq<u8>) ensures le_nat(s) < pow256(s.len()) decreases s.len() {
    if s.len() > 0 {
        let t = s.subrange(1, s.len() as int);
        lemma_le_nat_bound(t);
        assert(le_nat(s) <= 255 + 256 * (pow256(t.len()) - 1));
    }
}
pub proof fn lemma_le_nat_append(a: Seq<u8>, b: Seq<u8>)
    ensures le_nat(a + b) == le_nat(a) + pow256(a.len()) * le_nat(b)
    decreases a.len()
{
    if a.len() == 0 {
        assert(a + b =~= b);
        assert(pow256(0) == 1);
        assert(1 * le_nat(b) == le_nat(b));
    } else {
        let a1 = a.subrange(1, a.len() as int);
        let ab = a + b;
        assert(ab.len() > 0 && ab[0] == a[0]);
        assert(ab.subrange(1, ab.len() as int) =~= a1 + b);
        lemma_le_nat_append(a1, b);
        let x = pow256(a1.len()); let y = le_nat(b); let z = le_nat(a1);
        assert(a1.len() == a.len() - 1);
        assert(pow256(a.len()) == 256 * x);
        assert(le_nat(ab) == (a[0] as nat) + 256 * le_nat(a1 + b));
        assert(le_nat(a) == (a[0] as nat) + 256 * z);
        assert(le_nat(a1 + b) == z + x * y);
        assert(256 * (z + x * y) == 256 * z + (256 * x) * y) by (nonlinear_arith);
    }
}
pub proof fn lemma_le_nat_zeros(k: nat) ensures le_nat(zeros(k)) == 0 decreases k {
    if k > 0 {
        assert(zeros(k).subrange(1, k as int) =~= zeros((k - 1) as nat));
        lemma_le_nat_zeros((k - 1) as nat);
    }
}
// padding with zero bytes at the most significant end does not change the value
pub proof fn lemma_le_nat_pad(s: Seq<u8>, k: nat) ensures le_nat(s + zeros(k)) == le_nat(s) {
    lemma_le_nat_append(s, zeros(k)); lemma_le_nat_zeros(k);
    assert(pow256(s.len()) * 0 == 0);
}
pub proof fn lemma_le_bytes_len(x: nat, n: nat) ensures le_bytes(x, n).len() == n decreases n {
    if n > 0 { lemma_le_bytes_len(x / 256, (n - 1) as nat); }
}
pub proof fn lemma_le_nat_le_bytes(x: nat, n: nat)
    requires x < pow256(n)
    ensures le_nat(le_bytes(x, n)) == x
    decreases n
{
    if n > 0 {
        let t = le_bytes(x / 256, (n - 1) as nat);
        lemma_le_bytes_len(x / 256, (n - 1) as nat);
        assert(le_bytes(x, n).subrange(1, n as int) =~= t);
        assert(x / 256 < pow256((n - 1) as nat));
        lemma_le_nat_le_bytes(x / 256, (n - 1) as nat);
        assert(le_bytes(x, n)[0] == (x % 256) as u8);
    }
}
// le_bytes is the ONLY n-byte string with that value (encodings of a fixed width are unique)
pub proof fn lemma_le_bytes_le_nat(s: Seq<u8>) ensures le_bytes(le_nat(s), s.len()) == s decreases s.len() {
    if s.len() == 0 { assert(le_bytes(le_nat(s), 0) =~= s); } else {
        let t = s.subrange(1, s.len() as int);
        lemma_le_bytes_le_nat(t);
        let x = le_nat(s);
        assert(x % 256 == s[0] as nat && x / 256 == le_nat(t));
        assert(le_bytes(x, s.len()) =~= seq![s[0]] + t);
        assert(seq![s[0]] + t =~= s);
    }
}
// a non-empty string whose last (most significant) byte is non-zero has value >= 256^(len-1)
pub proof fn lemma_le_nat_lower(s: Seq<u8>)
    requires s.len() > 0, s.last() != 0
    ensures le_nat(s) >= pow256((s.len() - 1) as nat)
    decreases s.len()
{
    if s.len() > 1 {
        let t = s.subrange(1, s.len() as int);
        assert(t.last() == s.last());
        lemma_le_nat_lower(t);
    }
}
pub proof fn lemma_minimal_len(s: Seq<u8>, k: nat)
    requires s.len() > 0, s.last() != 0, le_nat(s) < pow256(k)
    ensures s.len() <= k
{
    lemma_le_nat_lower(s);
    if s.len() > k { lemma_pow256_mono(k, (s.len() - 1) as nat); }
}
// the length of a slice is a usize (vstd's own axiom about `spec_slice_len`; nothing assumed here)
pub proof fn lemma_slice_len<T>(s: &[T]) ensures s@.len() <= usize::MAX { assert(vstd::slice::spec_slice_len(s) == s@.len()); }
pub proof fn lemma_vec_len<T>(v: Vec<T>) ensures v@.len() <= usize::MAX { assert(vstd::std_specs::vec::spec_vec_len(&v) == v@.len()); }
pub proof fn lemma_subrange_all<T>(s: Seq<T>) ensures s.subrange(0, s.len() as int) == s { assert(s.subrange(0, s.len() as int) =~= s); }

// ---------------------------------------------------------------------------------------------
// the scalar field of BN254 (ark_bn254::Fr) and num_bigint::BigUint: external types with a nat view
// ---------------------------------------------------------------------------------------------
#[allow(non_snake_case)]
pub open spec fn P() -> nat {
    // 21888242871839275222246405745257275088548364400416034343698204186575808495617
    // = 0x30644e72e131a029_b85045b68181585d_2833e84879b97091_43e1f593f0000001
    (0x30644e72e131a029b85045b68181585d * (0x1_0000_0000_0000_0000 * 0x1_0000_0000_0000_0000) + 0x2833e84879b97091_43e1f593f0000001) as nat
}
pub proof fn lemma_p_lt_pow256_32() ensures 0 < P() < pow256(32) {
    lemma_pow256_values();
    let b: nat = pow256(16);
    assert(b == 0x1_0000_0000_0000_0000 * 0x1_0000_0000_0000_0000);
    assert(0x2833e84879b97091_43e1f593f0000001 < b) by (nonlinear_arith) requires b == 0x1_0000_0000_0000_0000 * 0x1_0000_0000_0000_0000;
    assert(0x30644e72e131a029b85045b68181585e <= b) by (nonlinear_arith) requires b == 0x1_0000_0000_0000_0000 * 0x1_0000_0000_0000_0000;
    assert(P() < 0x30644e72e131a029b85045b68181585e * b);
    assert(0x30644e72e131a029b85045b68181585e * b <= b * b) by (nonlinear_arith) requires 0x30644e72e131a029b85045b68181585e <= b;
}

// ASSUMED(dep): ark_bn254::Fr.  A value of the type is one residue class; `view` is its canonical
// representative (what `into_bigint()` returns).  Copy / Clone as in ark-ff.
#[verifier::external_body]
#[derive(Clone, Copy)]
pub struct Fr { _limbs: [u64; 4] }
impl Fr { pub uninterp spec fn view(&self) -> nat; }
// ASSUMED(dep): the canonical representative is below the field order
#[verifier::external_body]
pub broadcast proof fn axiom_fr_view_bound(x: Fr) ensures #[trigger] x.view() < P() {}
// ASSUMED(dep): one stored representation per residue class (Montgomery form is unique), so equality of
// field elements (`==` of ark-ff compares the representation) is equality of views
#[verifier::external_body]
pub proof fn axiom_fr_ext(a: Fr, b: Fr) requires a.view() == b.view() ensures a == b {}
// the field element with canonical value n (unique by axiom_fr_ext)
pub open spec fn fr_of(n: nat) -> Fr { choose|x: Fr| x.view() == n }
pub proof fn lemma_fr_of(x: Fr) ensures fr_of(x.view()) == x {
    let y = fr_of(x.view());
    assert(y.view() == x.view());
    axiom_fr_ext(y, x);
}
pub open spec fn frs_view(v: Seq<Fr>) -> Seq<nat> { Seq::new(v.len(), |i: int| v[i].view()) }
pub proof fn lemma_frs_ext(a: Seq<Fr>, b: Seq<Fr>) requires frs_view(a) == frs_view(b) ensures a == b {
    assert(a.len() == frs_view(a).len() && b.len() == frs_view(b).len());
    assert forall|i: int| 0 <= i < a.len() implies a[i] == b[i] by {
        assert(frs_view(a)[i] == a[i].view() && frs_view(b)[i] == b[i].view());
        axiom_fr_ext(a[i], b[i]);
    }
    assert(a =~= b);
}
impl PartialEq for Fr {
    // ASSUMED(dep): ark-ff `==` on Fp
    #[verifier::external_body]
    fn eq(&self, other: &Fr) -> (r: bool) ensures r == (self.view() == other.view()) { unimplemented!() }
}
impl PartialOrd for Fr {
    #[verifier::external_body]
    fn partial_cmp(&self, other: &Fr) -> (r: Option<core::cmp::Ordering>) { unimplemented!() }
}
// ASSUMED(dep): ark-ff orders field elements by their canonical integers (`into_bigint().cmp`)
impl vstd::std_specs::cmp::PartialOrdSpecImpl for Fr {
    open spec fn obeys_partial_cmp_spec() -> bool { true }
    open spec fn partial_cmp_spec(&self, other: &Fr) -> Option<core::cmp::Ordering> {
        if self.view() < other.view() { Some(core::cmp::Ordering::Less) }
        else if self.view() == other.view() { Some(core::cmp::Ordering::Equal) }
        else { Some(core::cmp::Ordering::Greater) }
    }
}
// ark_ff::PrimeField, reduced to the one associated constant the codecs read
pub trait PrimeField { const MODULUS_BIT_SIZE: u32; }
// ASSUMED(dep): <ark_bn254::Fr as PrimeField>::MODULUS_BIT_SIZE == 254 (checked on the real crate by the Kani
// harness fr_byte_size_is_32 of unit codecs_kani)
impl PrimeField for Fr { const MODULUS_BIT_SIZE: u32 = 254; }

// ASSUMED(dep): num_bigint::BigUint, an unbounded natural number
#[verifier::external_body]
pub struct BigUint { _digits: Vec<u64> }
impl BigUint {
    pub uninterp spec fn view(&self) -> nat;
    // ASSUMED(dep): BigUint::from_bytes_le is the little-endian value of the bytes (any length, also empty)
    #[verifier::external_body]
    pub fn from_bytes_le(bytes: &[u8]) -> (r: BigUint)
        ensures r.view() == le_nat(bytes@)
    { unimplemented!() }
    // ASSUMED(dep): BigUint::to_bytes_le is the MINIMAL little-endian encoding: no most-significant zero
    // byte, except that zero is encoded as the single byte 0
    #[verifier::external_body]
    pub fn to_bytes_le(&self) -> (r: Vec<u8>)
        ensures le_nat(r@) == self.view(), r@.len() >= 1,
                self.view() == 0 ==> r@ == seq![0u8],
                self.view() > 0 ==> r@.last() != 0,
    { unimplemented!() }
}
impl From<BigUint> for Fr {
    // ASSUMED(dep): ark-ff `impl From<BigUint> for Fp` = from_le_bytes_mod_order: the value modulo P
    #[verifier::external_body]
    fn from(b: BigUint) -> (r: Fr) ensures r.view() == b.view() % P() { unimplemented!() }
}
impl From<u64> for Fr {
    // ASSUMED(dep): Fr::from(u64) is that integer (every u64 is < P)
    #[verifier::external_body]
    fn from(v: u64) -> (r: Fr) ensures r.view() == v as nat { unimplemented!() }
}
impl From<Fr> for BigUint {
    // ASSUMED(dep): ark-ff `impl From<Fp> for BigUint` = into_bigint().into(): the canonical representative
    #[verifier::external_body]
    fn from(x: Fr) -> (r: BigUint) ensures r.view() == x.view() { unimplemented!() }
}

// ---------------------------------------------------------------------------------------------
// std specs
// ---------------------------------------------------------------------------------------------
// ASSUMED(std): u64::from_le_bytes.  Verus cannot attach a specification to the std function itself (its
// parameter type is `[u8; {anonymous const}]`, which no written type matches), so the extracted functions
// carry the DECLARED substitution `u64::from_le_bytes(` => `u64_from_le_bytes(`; the wrapper is that call.
#[verifier::external_body]
pub fn u64_from_le_bytes(b: [u8; 8]) -> (r: u64)
    ensures r as nat == le_nat(b@)
{ u64::from_le_bytes(b) }

#[verifier::external_type_specification]
#[verifier::external_body]
pub struct ExTryFromSliceError(core::array::TryFromSliceError);
// ASSUMED(std): <[T; N]>::try_from(&[T]) (also reached by `slice.try_into()`): Ok with the same elements
// iff the slice has exactly N elements
pub assume_specification<'a, T: Copy, const N: usize> [<[T; N] as TryFrom<&'a [T]>>::try_from] (s: &[T]) -> (r: core::result::Result<[T; N], core::array::TryFromSliceError>)
    ensures s@.len() == N ==> r.is_ok() && r->Ok_0@ == s@,
            s@.len() != N ==> r.is_err();
// (<[T]>::to_vec: specification in prelude_common)
// ASSUMED(dep): color_eyre::Report is built from any std error by `?` (blanket From<E: Error>); no panic
impl From<core::array::TryFromSliceError> for Report {
    #[verifier::external_body]
    fn from(e: core::array::TryFromSliceError) -> Report { Report{} }
}
impl From<core::num::TryFromIntError> for Report {
    #[verifier::external_body]
    fn from(e: core::num::TryFromIntError) -> Report { Report{} }
}
// (usize::try_from(u64), Vec::resize, Vec::extend_from_slice, Vec::with_capacity, Vec::push, slice indexing by
//  ranges: specifications shipped with vstd; `global size_of usize == 8` is declared in prelude_common)

// ASSUMED(model): no live slice or Vec is larger than 2^56 bytes (virtual addresses of every 64-bit target
// have at most 57 bits).  Used ONLY to discharge overflow checks of capacity computations that add the lengths
// of several live buffers; never for a length decoded from input bytes.
pub open spec fn max_live_bytes() -> nat { 0x100_0000_0000_0000 }
#[verifier::external_body]
pub proof fn axiom_live_bytes(s: Seq<u8>) ensures s.len() <= max_live_bytes() {}
#[verifier::external_body]
pub proof fn axiom_live_frs(s: Seq<Fr>) ensures 32 * s.len() <= max_live_bytes() {}

// ---------------------------------------------------------------------------------------------
// the documented layouts, as an independent encoder would produce them (spec encoders) and the reading
// of a layout (spec decoders)
// ---------------------------------------------------------------------------------------------
pub open spec fn fr_bytes(x: Fr) -> Seq<u8> { le_bytes(x.view(), 32) }
pub open spec fn le64(n: nat) -> Seq<u8> { le_bytes(n, 8) }
pub open spec fn frs_bytes(v: Seq<Fr>) -> Seq<u8> decreases v.len() {
    if v.len() == 0 { Seq::<u8>::empty() } else { frs_bytes(v.drop_last()) + fr_bytes(v.last()) }
}
// [ n<8> | elem_0<32> | ... | elem_{n-1}<32> ]
pub open spec fn vec_fr_bytes(v: Seq<Fr>) -> Seq<u8> { le64(v.len()) + frs_bytes(v) }
// [ n<8> | bytes<n> ]
pub open spec fn vec_u8_bytes(v: Seq<u8>) -> Seq<u8> { le64(v.len()) + v }

// reading: the field element encoded at offset `off` (reduced modulo P, as bytes_le_to_fr does)
pub open spec fn dec_fr(s: Seq<u8>, off: int) -> nat { le_nat(s.subrange(off, off + 32)) % P() }
pub open spec fn dec_u64(s: Seq<u8>, off: int) -> int { le_nat(s.subrange(off, off + 8)) as int }
// canonical: the 32 bytes at `off` encode a value below the field order
pub open spec fn canonical_at(s: Seq<u8>, off: int) -> bool { le_nat(s.subrange(off, off + 32)) < P() }

pub open spec fn starts_with(s: Seq<u8>, p: Seq<u8>) -> bool { p.len() <= s.len() && s.subrange(0, p.len() as int) == p }
// reading at offset `off` of the tail s[a..] is reading at a + off of s
pub proof fn lemma_dec_shift(s: Seq<u8>, a: int, off: int)
    requires 0 <= a, 0 <= off
    ensures a + off + 32 <= s.len() ==> dec_fr(s.subrange(a, s.len() as int), off) == dec_fr(s, a + off)
                && canonical_at(s.subrange(a, s.len() as int), off) == canonical_at(s, a + off),
            a + off + 8 <= s.len() ==> dec_u64(s.subrange(a, s.len() as int), off) == dec_u64(s, a + off),
{
    let t = s.subrange(a, s.len() as int);
    if a + off + 32 <= s.len() { assert(t.subrange(off, off + 32) =~= s.subrange(a + off, a + off + 32)); }
    if a + off + 8 <= s.len() { assert(t.subrange(off, off + 8) =~= s.subrange(a + off, a + off + 8)); }
}

pub proof fn lemma_fr_bytes(x: Fr)
    ensures fr_bytes(x).len() == 32, le_nat(fr_bytes(x)) == x.view(), le_nat(fr_bytes(x)) % P() == x.view(), le_nat(fr_bytes(x)) < P()
{
    axiom_fr_view_bound(x); lemma_p_lt_pow256_32();
    lemma_le_bytes_len(x.view(), 32); lemma_le_nat_le_bytes(x.view(), 32);
    vstd::arithmetic::div_mod::lemma_small_mod(x.view(), P());
}
// a 32-byte string with value v.view() IS fr_bytes(v)
pub proof fn lemma_fr_bytes_unique(s: Seq<u8>, x: Fr)
    requires s.len() == 32, le_nat(s) == x.view()
    ensures s == fr_bytes(x)
{ lemma_le_bytes_le_nat(s); }
pub proof fn lemma_le64(n: nat)
    requires n < 0x1_0000_0000_0000_0000
    ensures le64(n).len() == 8, le_nat(le64(n)) == n
{ lemma_pow256_values(); lemma_le_bytes_len(n, 8); lemma_le_nat_le_bytes(n, 8); }
pub proof fn lemma_frs_bytes_len(v: Seq<Fr>) ensures frs_bytes(v).len() == 32 * v.len() decreases v.len() {
    if v.len() > 0 { lemma_frs_bytes_len(v.drop_last()); lemma_fr_bytes(v.last()); }
}
pub proof fn lemma_frs_bytes_push(v: Seq<Fr>, x: Fr) ensures frs_bytes(v.push(x)) == frs_bytes(v) + fr_bytes(x) {
    assert(v.push(x).drop_last() =~= v);
}
// element i of the flat encoding sits at offset 32*i
pub proof fn lemma_frs_bytes_index(v: Seq<Fr>, i: int)
    requires 0 <= i < v.len()
    ensures frs_bytes(v).len() == 32 * v.len(), frs_bytes(v).subrange(32 * i, 32 * i + 32) == fr_bytes(v[i])
    decreases v.len()
{
    lemma_frs_bytes_len(v); lemma_frs_bytes_len(v.drop_last()); lemma_fr_bytes(v.last());
    if i == v.len() - 1 {
        assert(frs_bytes(v).subrange(32 * i, 32 * i + 32) =~= fr_bytes(v.last()));
    } else {
        lemma_frs_bytes_index(v.drop_last(), i);
        assert(frs_bytes(v).subrange(32 * i, 32 * i + 32) =~= frs_bytes(v.drop_last()).subrange(32 * i, 32 * i + 32));
    }
}
