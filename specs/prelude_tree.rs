// ---- prelude_tree: the Hasher trait with an uninterpreted hash, and the ideal hash tree ----
// Re-declaration of utils::merkle_tree::Hasher: the two spec functions make the hash an
// UNINTERPRETED function, so everything proved holds for every hasher (Poseidon included).
// `hash` is only ever called with two elements by the tree code; that is a proof obligation here.
pub trait Hasher {
    type Fr: Copy;
    spec fn spec_default_leaf() -> Self::Fr;
    spec fn spec_hash2(a: Self::Fr, b: Self::Fr) -> Self::Fr;
    fn default_leaf() -> (r: Self::Fr)
        ensures r == Self::spec_default_leaf();
    fn hash(input: &[Self::Fr]) -> (r: Self::Fr)
        requires input@.len() == 2,
        ensures r == Self::spec_hash2(input@[0], input@[1]);
}

// The ideal tree of property C06: a plain array of 2^depth leaves hashed pairwise level by level.
// level 0 is the root, level `depth` are the leaves.
pub open spec fn ideal_node<H: Hasher>(leaves: Seq<H::Fr>, depth: nat, level: nat, idx: nat) -> H::Fr
    decreases depth - level
{
    if level >= depth { leaves[idx as int] }
    else { H::spec_hash2(ideal_node::<H>(leaves, depth, level + 1, 2 * idx),
                         ideal_node::<H>(leaves, depth, level + 1, 2 * idx + 1)) }
}
pub open spec fn ideal_root<H: Hasher>(leaves: Seq<H::Fr>, depth: nat) -> H::Fr {
    ideal_node::<H>(leaves, depth, 0, 0)
}
// default node of a level: hash of the all-default subtree
pub open spec fn default_node<H: Hasher>(height: nat) -> H::Fr
    decreases height
{
    if height == 0 { H::spec_default_leaf() }
    else { H::spec_hash2(default_node::<H>((height - 1) as nat), default_node::<H>((height - 1) as nat)) }
}
// ideal range write / reset
pub open spec fn write_range<T>(s: Seq<T>, start: int, vals: Seq<T>) -> Seq<T> {
    Seq::new(s.len(), |i: int| if start <= i < start + vals.len() { vals[i - start] } else { s[i] })
}
pub open spec fn max_nat(a: int, b: int) -> int { if a >= b { a } else { b } }

// a membership path: sibling value and direction bit (0 = current node is the left child), leaf upwards
pub open spec fn fold_path<H: Hasher>(acc: H::Fr, path: Seq<(H::Fr, u8)>) -> H::Fr
    decreases path.len()
{
    if path.len() == 0 { acc }
    else {
        let (sib, bit) = path[0];
        let nxt = if bit == 0 { H::spec_hash2(acc, sib) } else { H::spec_hash2(sib, acc) };
        fold_path::<H>(nxt, path.subrange(1, path.len() as int))
    }
}
// the ideal membership path of leaf position i
pub open spec fn ideal_path<H: Hasher>(leaves: Seq<H::Fr>, depth: nat, i: nat) -> Seq<(H::Fr, u8)> {
    Seq::new(depth, |k: int| {
        let j = i / pow2(k as nat);
        let sib = if j % 2 == 0 { j + 1 } else { (j - 1) as nat };
        (ideal_node::<H>(leaves, depth, (depth - k) as nat, sib), (j % 2) as u8)
    })
}
pub open spec fn path_index(path: Seq<(u8)>) -> nat
    decreases path.len()
{
    if path.len() == 0 { 0 } else { (path[0] as nat) + 2 * path_index(path.subrange(1, path.len() as int)) }
}
