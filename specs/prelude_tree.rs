// ---- prelude_tree: the Hasher trait with an uninterpreted hash, and the ideal hash tree ----
// Re-declaration of utils::merkle_tree::Hasher: the two spec functions make the hash an
// UNINTERPRETED function, so everything proved holds for every hasher (Poseidon included).
// `hash` is only ever called with two elements by the tree code; that is a proof obligation here.
pub trait Hasher {
    type Fr: Copy + PartialEq;
    spec fn spec_default_leaf() -> Self::Fr;
    spec fn spec_hash2(a: Self::Fr, b: Self::Fr) -> Self::Fr;
    fn default_leaf() -> (r: Self::Fr)
        ensures r == Self::spec_default_leaf();
    fn hash(input: &[Self::Fr]) -> (r: Self::Fr)
        requires input@.len() == 2,
        ensures r == Self::spec_hash2(input@[0], input@[1]);
}

// The ideal tree of property C06: a plain array of 2^depth leaves hashed pairwise level by level.
// level 0 is the root, level `depth` are the leaves.
pub open spec fn ideal_node<H: Hasher>(leaves: Seq<H::Fr>, depth: nat, level: nat, idx: nat) -> H::Fr
    decreases depth - level
{
    if level >= depth { leaves[idx as int] }
    else { H::spec_hash2(ideal_node::<H>(leaves, depth, level + 1, 2 * idx),
                         ideal_node::<H>(leaves, depth, level + 1, 2 * idx + 1)) }
}
pub open spec fn ideal_root<H: Hasher>(leaves: Seq<H::Fr>, depth: nat) -> H::Fr {
    ideal_node::<H>(leaves, depth, 0, 0)
}
// default node of a level: hash of the all-default subtree
pub open spec fn default_node<H: Hasher>(height: nat) -> H::Fr
    decreases height
{
    if height == 0 { H::spec_default_leaf() }
    else { H::spec_hash2(default_node::<H>((height - 1) as nat), default_node::<H>((height - 1) as nat)) }
}
// ideal range write / reset
pub open spec fn write_range<T>(s: Seq<T>, start: int, vals: Seq<T>) -> Seq<T> {
    Seq::new(s.len(), |i: int| if start <= i < start + vals.len() { vals[i - start] } else { s[i] })
}
pub open spec fn max_nat(a: int, b: int) -> int { if a >= b { a } else { b } }
// ideal removal (C08): every listed position is reset to `d`
pub open spec fn reset_all<T>(s: Seq<T>, removed: Seq<usize>, d: T) -> Seq<T> {
    Seq::new(s.len(), |i: int| if removed.contains(i as usize) { d } else { s[i] })
}
// positions at or above the high-water mark were never written: default leaf, flag 0
pub open spec fn tail_untouched<T>(leaves: Seq<T>, flags: Seq<u8>, mark: int, d: T) -> bool {
    forall|i: int| mark <= i < leaves.len() ==> #[trigger] leaves[i] == d && flags[i] == 0u8
}
pub proof fn lemma_reset_all_step<T>(s: Seq<T>, removed: Seq<usize>, k: int, d: T)
    requires 0 <= k < removed.len(), removed[k] < s.len(), s.len() <= usize::MAX
    ensures reset_all(s, removed.take(k + 1), d) =~= reset_all(s, removed.take(k), d).update(removed[k] as int, d)
{
    let a = reset_all(s, removed.take(k + 1), d);
    let b = reset_all(s, removed.take(k), d).update(removed[k] as int, d);
    assert(a.len() == s.len() && b.len() == s.len());
    assert forall|i: int| 0 <= i < s.len() implies a[i] == b[i] by {
        let t1 = removed.take(k + 1); let t0 = removed.take(k);
        assert((i as usize) as int == i);
        if t0.contains(i as usize) {
            let w = choose|w: int| 0 <= w < t0.len() && t0[w] == i as usize;
            assert(t1[w] == i as usize);
        }
        if t1.contains(i as usize) {
            let w = choose|w: int| 0 <= w < t1.len() && t1[w] == i as usize;
            if w < k { assert(t0[w] == i as usize); } else { assert(removed[k] == i as usize); }
        }
        if i == removed[k] as int { assert(t1[k] == removed[k]); }
    }
}

// a membership path: sibling value and direction bit (0 = current node is the left child), leaf upwards
pub open spec fn fold_path<H: Hasher>(acc: H::Fr, path: Seq<(H::Fr, u8)>) -> H::Fr
    decreases path.len()
{
    if path.len() == 0 { acc }
    else {
        let (sib, bit) = path[0];
        let nxt = if bit == 0 { H::spec_hash2(acc, sib) } else { H::spec_hash2(sib, acc) };
        fold_path::<H>(nxt, path.subrange(1, path.len() as int))
    }
}
// the ideal membership path of leaf position i
pub open spec fn ideal_path<H: Hasher>(leaves: Seq<H::Fr>, depth: nat, i: nat) -> Seq<(H::Fr, u8)> {
    Seq::new(depth, |k: int| {
        let j = i / pow2(k as nat);
        let sib = if j % 2 == 0 { j + 1 } else { (j - 1) as nat };
        (ideal_node::<H>(leaves, depth, (depth - k) as nat, sib), (j % 2) as u8)
    })
}
pub open spec fn path_index(path: Seq<(u8)>) -> nat
    decreases path.len()
{
    if path.len() == 0 { 0 } else { (path[0] as nat) + 2 * path_index(path.subrange(1, path.len() as int)) }
}

// ASSUMED(model): the node type's `==` is structural equality (true for ark-ff's Fp: derived Eq on the canonical limbs)
#[verifier::external_body]
pub proof fn axiom_fr_eq<H: Hasher>()
    ensures <H::Fr as vstd::std_specs::cmp::PartialEqSpec>::obeys_eq_spec(),
            forall|a: H::Fr, b: H::Fr| #[trigger] a.eq_spec(&b) == (a == b),
{}

// ---- C07 lemmas over the ideal tree (pure spec level; they do not depend on any implementation) ----
pub proof fn lemma_ideal_path_len<H: Hasher>(leaves: Seq<H::Fr>, depth: nat, i: nat)
    ensures ideal_path::<H>(leaves, depth, i).len() == depth
{}

// completeness: folding the stored leaf along its ideal path gives the ideal root
pub proof fn lemma_fold_ideal<H: Hasher>(leaves: Seq<H::Fr>, depth: nat, i: nat, k: nat)
    requires i < pow2(depth), k <= depth
    ensures fold_path::<H>(ideal_node::<H>(leaves, depth, (depth - k) as nat, i / pow2(k)),
                           ideal_path::<H>(leaves, depth, i).subrange(k as int, depth as int)) == ideal_root::<H>(leaves, depth)
    decreases depth - k
{
    let full = ideal_path::<H>(leaves, depth, i);
    let p = full.subrange(k as int, depth as int);
    let j = i / pow2(k);
    lemma_pow2_pos(k);
    if k == depth {
        vstd::arithmetic::div_mod::lemma_basic_div(i as int, pow2(depth) as int);
        assert(p.len() == 0);
    } else {
        lemma_pow2_unfold(k + 1);
        vstd::arithmetic::div_mod::lemma_div_denominator(i as int, pow2(k) as int, 2);
        assert(pow2(k) * 2 == pow2(k + 1));
        assert(j / 2 == i / pow2(k + 1));
        assert(p[0] == full[k as int]);
        let acc = ideal_node::<H>(leaves, depth, (depth - k) as nat, j);
        let sib = if j % 2 == 0 { j + 1 } else { (j - 1) as nat };
        let sibnode = ideal_node::<H>(leaves, depth, (depth - k) as nat, sib);
        let nxt = if j % 2 == 0 { H::spec_hash2(acc, sibnode) } else { H::spec_hash2(sibnode, acc) };
        // parent node unfolds to the hash of its two children
        assert(ideal_node::<H>(leaves, depth, (depth - k - 1) as nat, j / 2) == nxt) by {
            assert(2 * (j / 2) == (if j % 2 == 0 { j } else { (j - 1) as nat }));
            assert(((depth - k - 1) as nat) + 1 == (depth - k) as nat);
        }
        assert(p.subrange(1, p.len() as int) =~= full.subrange((k + 1) as int, depth as int));
        lemma_fold_ideal::<H>(leaves, depth, i, k + 1);
    }
}

// the direction bits of the ideal path decode (least significant first) to the position
pub proof fn lemma_path_index_ideal<H: Hasher>(leaves: Seq<H::Fr>, depth: nat, i: nat, k: nat)
    requires i < pow2(depth), k <= depth
    ensures path_index(Seq::new((depth - k) as nat, |m: int| ideal_path::<H>(leaves, depth, i)[m + k].1)) == i / pow2(k)
    decreases depth - k
{
    let bits = Seq::new((depth - k) as nat, |m: int| ideal_path::<H>(leaves, depth, i)[m + k].1);
    lemma_pow2_pos(k);
    if k == depth {
        vstd::arithmetic::div_mod::lemma_basic_div(i as int, pow2(depth) as int);
        assert(bits.len() == 0);
    } else {
        lemma_pow2_unfold(k + 1);
        vstd::arithmetic::div_mod::lemma_div_denominator(i as int, pow2(k) as int, 2);
        assert(pow2(k) * 2 == pow2(k + 1));
        let rest = Seq::new((depth - k - 1) as nat, |m: int| ideal_path::<H>(leaves, depth, i)[m + k + 1].1);
        assert(bits.subrange(1, bits.len() as int) =~= rest);
        lemma_path_index_ideal::<H>(leaves, depth, i, k + 1);
        let rest2 = Seq::new((depth - (k + 1)) as nat, |m: int| ideal_path::<H>(leaves, depth, i)[m + (k + 1)].1);
        assert(rest =~= rest2);
        assert(path_index(rest2) == i / pow2(k + 1));
        let j = i / pow2(k);
        assert(bits[0] == (j % 2) as u8);
        assert(j / 2 == i / pow2(k + 1));
        assert(bits.len() > 0);
        assert(path_index(bits) == (bits[0] as nat) + 2 * path_index(bits.subrange(1, bits.len() as int)));
        assert(j == (j % 2) + 2 * (j / 2));
    }
}

// C15: the ascending list of positions below the high-water mark whose flag is 0
pub open spec fn empty_positions(flags: Seq<u8>, mark: nat) -> Seq<usize>
    decreases mark
{
    if mark == 0 { Seq::empty() }
    else {
        let rest = empty_positions(flags, (mark - 1) as nat);
        if flags[mark - 1] == 0u8 { rest.push((mark - 1) as usize) } else { rest }
    }
}

// ---- C07 binding lemmas (pure spec level), under the NAMED idealisation that the 2-to-1 hash is injective ----
pub open spec fn hash_injective<H: Hasher>() -> bool {
    forall|a: H::Fr, b: H::Fr, c: H::Fr, d: H::Fr| #[trigger] H::spec_hash2(a, b) == #[trigger] H::spec_hash2(c, d) ==> a == c && b == d
}
pub open spec fn path_step<H: Hasher>(acc: H::Fr, e: (H::Fr, u8)) -> H::Fr {
    if e.1 == 0 { H::spec_hash2(acc, e.0) } else { H::spec_hash2(e.0, acc) }
}
// folding a concatenation: first the prefix, then the rest
pub proof fn lemma_fold_split<H: Hasher>(acc: H::Fr, p: Seq<(H::Fr, u8)>, m: int)
    requires 0 <= m <= p.len()
    ensures fold_path::<H>(acc, p) == fold_path::<H>(fold_path::<H>(acc, p.take(m)), p.skip(m))
    decreases m
{
    if m == 0 {
        assert(p.take(0).len() == 0);
        assert(p.skip(0) =~= p);
    } else {
        let nxt = path_step::<H>(acc, p[0]);
        let rest = p.subrange(1, p.len() as int);
        lemma_fold_split::<H>(nxt, rest, m - 1);
        assert(p.take(m)[0] == p[0]);
        assert(p.take(m).subrange(1, m) =~= rest.take(m - 1));
        assert(p.skip(m) =~= rest.skip(m - 1));
        assert(fold_path::<H>(acc, p.take(m)) == fold_path::<H>(nxt, rest.take(m - 1)));
    }
}
// with an injective hash the fold is injective in its start value
pub proof fn lemma_fold_injective_acc<H: Hasher>(x: H::Fr, y: H::Fr, p: Seq<(H::Fr, u8)>)
    requires hash_injective::<H>(), fold_path::<H>(x, p) == fold_path::<H>(y, p)
    ensures x == y
    decreases p.len()
{
    if p.len() > 0 {
        let rest = p.subrange(1, p.len() as int);
        lemma_fold_injective_acc::<H>(path_step::<H>(x, p[0]), path_step::<H>(y, p[0]), rest);
    }
}
// binding: the ideal path of position i folds to the ideal root only from the stored leaf
pub proof fn lemma_binding_leaf<H: Hasher>(leaves: Seq<H::Fr>, depth: nat, i: nat, other: H::Fr)
    requires hash_injective::<H>(), i < pow2(depth),
             fold_path::<H>(other, ideal_path::<H>(leaves, depth, i)) == ideal_root::<H>(leaves, depth),
    ensures other == leaves[i as int]
{
    lemma_fold_ideal::<H>(leaves, depth, i, 0);
    assert(pow2(0) == 1) by { lemma2_to64(); }
    assert(i / pow2(0) == i) by { vstd::arithmetic::div_mod::lemma_div_basics(i as int); }
    let p = ideal_path::<H>(leaves, depth, i);
    assert(p.subrange(0, depth as int) =~= p);
    assert(ideal_node::<H>(leaves, depth, depth, i) == leaves[i as int]);
    lemma_fold_injective_acc::<H>(other, leaves[i as int], p);
}
// a path altered in one sibling value does not fold to the same value
pub proof fn lemma_altered_sibling_rejected<H: Hasher>(x: H::Fr, p: Seq<(H::Fr, u8)>, q: Seq<(H::Fr, u8)>, m: int)
    requires hash_injective::<H>(), p.len() == q.len(), 0 <= m < p.len(),
             forall|k: int| 0 <= k < p.len() && k != m ==> p[k] == q[k],
             p[m].1 == q[m].1, p[m].0 != q[m].0,
    ensures fold_path::<H>(x, p) != fold_path::<H>(x, q)
{
    lemma_fold_split::<H>(x, p, m); lemma_fold_split::<H>(x, q, m);
    assert(p.take(m) =~= q.take(m));
    let a = fold_path::<H>(x, p.take(m));
    let ps = p.skip(m); let qs = q.skip(m);
    let rest = ps.subrange(1, ps.len() as int);
    assert(qs.subrange(1, qs.len() as int) =~= rest);
    assert(ps[0] == p[m] && qs[0] == q[m]);
    let u = path_step::<H>(a, p[m]); let v = path_step::<H>(a, q[m]);
    assert(u != v);
    if fold_path::<H>(u, rest) == fold_path::<H>(v, rest) { lemma_fold_injective_acc::<H>(u, v, rest); }
}
// a path altered in one direction bit, at a level where the two children differ, does not fold to the same value
pub proof fn lemma_altered_bit_rejected<H: Hasher>(x: H::Fr, p: Seq<(H::Fr, u8)>, q: Seq<(H::Fr, u8)>, m: int)
    requires hash_injective::<H>(), p.len() == q.len(), 0 <= m < p.len(),
             forall|k: int| 0 <= k < p.len() && k != m ==> p[k] == q[k],
             p[m].0 == q[m].0, (p[m].1 == 0) != (q[m].1 == 0),
             // the two children at level m differ: the running value and the sibling
             fold_path::<H>(x, p.take(m)) != p[m].0,
    ensures fold_path::<H>(x, p) != fold_path::<H>(x, q)
{
    lemma_fold_split::<H>(x, p, m); lemma_fold_split::<H>(x, q, m);
    assert(p.take(m) =~= q.take(m));
    let a = fold_path::<H>(x, p.take(m));
    let ps = p.skip(m); let qs = q.skip(m);
    let rest = ps.subrange(1, ps.len() as int);
    assert(qs.subrange(1, qs.len() as int) =~= rest);
    assert(ps[0] == p[m] && qs[0] == q[m]);
    let u = path_step::<H>(a, p[m]); let v = path_step::<H>(a, q[m]);
    assert(u != v);
    if fold_path::<H>(u, rest) == fold_path::<H>(v, rest) { lemma_fold_injective_acc::<H>(u, v, rest); }
}
