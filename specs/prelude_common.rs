// ---- prelude_common: error type, iterator vocabulary, std specs (ASSUMED contracts on std) ----
global size_of usize == 8;

pub struct Report { }
pub type Result<T> = core::result::Result<T, Report>;
impl Report {
    // ASSUMED(dep): color_eyre::Report::msg builds an error value and does not panic
    #[verifier::external_body]
    pub fn msg<M>(m: M) -> Report { Report{} }
    // ASSUMED(dep): Display of a Report does not panic
    #[verifier::external_body]
    pub fn to_string(&self) -> String { String::new() }
}

// ASSUMED(std): every call of IntoIterator::into_iter that the code makes returns (totality of the
// caller-supplied iterator is outside every no-panic claim made here)
#[verifier::external_body]
pub proof fn axiom_into_iter_total<I: IntoIterator>(i: I)
    ensures exists|it: I::IntoIter| call_ensures(<I as IntoIterator>::into_iter, (i,), it)
{}

#[verifier::prophetic]
pub open spec fn iter_yields<I: IntoIterator>(i: I, s: Seq<I::Item>) -> bool {
    forall |it: I::IntoIter| #[trigger] call_ensures(<I as IntoIterator>::into_iter, (i,), it)
        ==> it.obeys_prophetic_iter_laws() && it.remaining() == s
}
// the finite sequence of items an IntoIterator argument yields
#[verifier::prophetic]
pub open spec fn into_seq<I: IntoIterator>(i: I) -> Seq<I::Item> {
    choose|s: Seq<I::Item>| iter_yields(i, s)
}
#[verifier::prophetic]
pub open spec fn iter_ok<I: IntoIterator>(i: I) -> bool {
    exists|s: Seq<I::Item>| iter_yields(i, s)
}
pub proof fn lemma_into_seq<I: IntoIterator>(i: I, s: Seq<I::Item>)
    requires iter_yields(i, s)
    ensures iter_ok(i), into_seq(i) == s
{
    axiom_into_iter_total(i);
    let it = choose|it: I::IntoIter| call_ensures(<I as IntoIterator>::into_iter, (i,), it);
    assert(iter_yields(i, into_seq(i)));
    assert(it.remaining() == s);
    assert(it.remaining() == into_seq(i));
}
pub proof fn lemma_into_seq_use<I: IntoIterator>(i: I, it: I::IntoIter)
    requires iter_ok(i), call_ensures(<I as IntoIterator>::into_iter, (i,), it)
    ensures it.obeys_prophetic_iter_laws(), it.remaining() == into_seq(i)
{
    assert(iter_yields(i, into_seq(i)));
}

// what `x.into_iter().collect::<Vec<_>>()` yields for an argument with iter_ok(x)
pub proof fn lemma_into_seq_use_witness<I: IntoIterator>(i: I)
    requires iter_ok(i)
    ensures forall|it: I::IntoIter| #[trigger] call_ensures(<I as IntoIterator>::into_iter, (i,), it)
        ==> it.obeys_prophetic_iter_laws() && it.remaining() == into_seq(i)
{
    assert(iter_yields(i, into_seq(i)));
}

// an Iterator passed where an IntoIterator is expected yields its remaining items
pub broadcast proof fn lemma_iterator_into_seq<I: Iterator>(it: I)
    requires it.obeys_prophetic_iter_laws()
    ensures #![trigger iter_ok(it)] #![trigger into_seq(it)] iter_ok(it) && into_seq(it) == it.remaining()
{
    lemma_into_seq(it, it.remaining());
}
// a Vec passed where an IntoIterator is expected yields its elements
pub broadcast proof fn lemma_vec_into_seq<T>(v: Vec<T>)
    ensures #![trigger iter_ok(v)] #![trigger into_seq(v)] iter_ok(v) && into_seq(v) == v@
{
    lemma_into_seq(v, v@);
}

// ASSUMED(std): std::iter::once yields exactly its argument
#[verifier::reject_recursive_types(T)]
#[verifier::external_type_specification]
#[verifier::external_body]
pub struct ExOnce<T>(std::iter::Once<T>);
pub assume_specification<T> [std::iter::once] (x: T) -> (r: std::iter::Once<T>)
    ensures r.obeys_prophetic_iter_laws(), r.remaining() == seq![x];

// ASSUMED(std): cmp::max / cmp::min on usize
pub assume_specification<T: Ord> [std::cmp::max] (a: T, b: T) -> (r: T)
    ensures T::obeys_cmp_spec() ==> r == (if a.cmp_spec(&b) == core::cmp::Ordering::Greater { a } else { b });
pub assume_specification<T: Ord> [std::cmp::min] (a: T, b: T) -> (r: T)
    ensures T::obeys_cmp_spec() ==> r == (if a.cmp_spec(&b) == core::cmp::Ordering::Greater { b } else { a });

// ASSUMED(std): <[T]>::to_vec copies the slice (used with T = u8 only, whose Clone is a copy)
pub assume_specification<T: Clone> [<[T]>::to_vec] (s: &[T]) -> (r: Vec<T>)
    ensures r@ == s@;

// ASSUMED(std): <[T]>::contains is membership (only used with T = usize, whose == is structural)
pub assume_specification<T: PartialEq> [<[T]>::contains] (s: &[T], x: &T) -> (r: bool)
    ensures r == s@.contains(*x);

pub proof fn lemma_pow2_mono(a: nat, b: nat)
    requires a <= b
    ensures pow2(a) <= pow2(b)
    decreases b - a
{
    if a < b { lemma_pow2_mono(a, (b - 1) as nat); lemma_pow2_unfold(b); lemma_pow2_pos((b - 1) as nat); }
}
pub proof fn lemma_pow2_lt_usize(d: nat)
    requires d <= 62
    ensures 0 < pow2(d) <= 0x4000_0000_0000_0000
{
    lemma_pow2_mono(d, 62); lemma_pow2_pos(d); lemma2_to64_rest();
}
// 1 << d on usize is pow2(d)
pub proof fn lemma_shl_one(d: usize)
    requires d <= 62
    ensures (1usize << d) == pow2(d as nat)
{
    lemma_pow2_lt_usize(d as nat);
    vstd::bits::lemma_usize_shl_is_mul(1usize, d);
}
