//! Verification stand-in for `vacp2p_pmtree` 2.0.2 (unit pm_adapter_kani).
//!
//! ASSUMED(dep): this file IS the executable form of the dependency contract that the Verus unit `pm_adapter`
//! assumes for `pmtree::MerkleTree` (specs/pm_adapter.rs.in, "ASSUMED(dep) model"): the IDEAL hash tree with a
//! high-water mark.  State = (depth, 2^depth leaves, next_index); every operation has exactly the effect and
//! the error conditions of the real crate's src/tree.rs:
//!   set(key)         key >= capacity -> Err(IndexOutOfBounds), else leaves[key] = leaf, next = max(next, key + 1)
//!   delete(key)      key >= next_index -> Err(InvalidKey), else set(key, default_leaf)
//!   update_next      set(next_index, leaf)                      (Err(IndexOutOfBounds) when full)
//!   set_range / batch_insert   start + len > capacity -> Err(MerkleTreeIsFull) (sum unchecked, as in the real
//!                    crate), else the range is written and next = max(next, start + len)
//!   get(key)         key >= capacity -> Err(IndexOutOfBounds), else leaves[key]
//!   root / get_elem / proof / verify   computed on demand from the leaves with H::hash (ideal nodes)
//! Not modelled: storage (the database is opened and otherwise unused; no operation fails for storage reasons),
//! persisted leaf values (a tree `load`ed from an existing database has its depth and next_index, read through
//! the Database trait like the real crate does, and default leaves), rayon, error message texts.
//! Same public API, same module paths, same error enums as the real crate.  `from_parts` is test-only.
#![allow(unused)]
use std::fmt::{Debug, Display};

pub mod database {
    use crate::*;
    use std::collections::HashMap;
    pub trait Database {
        type Config: Default;
        fn new(config: Self::Config) -> PmtreeResult<Self>
        where
            Self: Sized;
        fn load(config: Self::Config) -> PmtreeResult<Self>
        where
            Self: Sized;
        fn get(&self, key: DBKey) -> PmtreeResult<Option<Value>>;
        fn put(&mut self, key: DBKey, value: Value) -> PmtreeResult<()>;
        fn put_batch(&mut self, subtree: HashMap<DBKey, Value>) -> PmtreeResult<()>;
        fn close(&mut self) -> PmtreeResult<()>;
    }
}
pub mod hasher {
    use crate::*;
    use std::fmt::Debug;
    pub trait Hasher {
        type Fr: Copy + Eq + Default + Sync + Send + Debug;
        fn serialize(value: Self::Fr) -> Value;
        fn deserialize(value: Value) -> Self::Fr;
        fn default_leaf() -> Self::Fr {
            Self::Fr::default()
        }
        fn hash(input: &[Self::Fr]) -> Self::Fr;
    }
}
pub use database::*;
pub use hasher::*;
pub use tree::MerkleTree;

pub type DBKey = [u8; 8];
pub type Value = Vec<u8>;

#[derive(Debug)]
pub enum TreeErrorKind {
    MerkleTreeIsFull,
    InvalidKey,
    IndexOutOfBounds,
    CustomError(String),
}
#[derive(Debug)]
pub enum DatabaseErrorKind {
    CannotLoadDatabase,
    DatabaseExists,
    CustomError(String),
}
#[derive(Debug)]
pub enum PmtreeErrorKind {
    DatabaseError(DatabaseErrorKind),
    TreeError(TreeErrorKind),
    CustomError(String),
}
// message texts are not modelled (the callers only turn them into a color-eyre Report, whose shim drops them)
impl Display for PmtreeErrorKind {
    fn fmt(&self, _f: &mut std::fmt::Formatter) -> std::fmt::Result {
        Ok(())
    }
}
impl std::error::Error for PmtreeErrorKind {}
pub type PmtreeResult<T> = std::result::Result<T, PmtreeErrorKind>;

pub mod tree {
    use crate::*;
    use std::cmp::max;

    const DEPTH_KEY: DBKey = (u64::MAX - 1).to_be_bytes();
    const NEXT_INDEX_KEY: DBKey = u64::MAX.to_be_bytes();

    #[derive(Debug, Clone, Copy, PartialEq, Eq, Hash)]
    pub struct Key(usize, usize);
    impl Key {
        pub fn new(depth: usize, index: usize) -> Self {
            Key(depth, index)
        }
    }

    pub struct MerkleTree<D, H>
    where
        D: Database,
        H: Hasher,
    {
        pub db: D,
        depth: usize,
        next_index: usize,
        leaves: Vec<H::Fr>,
    }

    #[derive(Clone, PartialEq, Eq)]
    pub struct MerkleProof<H: Hasher>(pub Vec<(H::Fr, u8)>);

    impl<D, H> MerkleTree<D, H>
    where
        D: Database,
        H: Hasher,
    {
        /// test-only: the ideal tree in an arbitrary state (leaves.len() must be 2^depth)
        pub fn from_parts(db: D, depth: usize, leaves: Vec<H::Fr>, next_index: usize) -> Self {
            Self { db, depth, next_index, leaves }
        }

        pub fn default(depth: usize) -> PmtreeResult<Self> {
            Self::new(depth, D::Config::default())
        }

        pub fn new(depth: usize, db_config: D::Config) -> PmtreeResult<Self> {
            let db = D::new(db_config)?;
            Ok(Self { db, depth, next_index: 0, leaves: vec![H::default_leaf(); 1 << depth] })
        }

        pub fn load(db_config: D::Config) -> PmtreeResult<Self> {
            let db = D::load(db_config)?;
            let depth = match db.get(DEPTH_KEY)? {
                Some(depth) => usize::from_be_bytes(depth.try_into().unwrap()),
                None => 20,
            };
            let next_index = match db.get(NEXT_INDEX_KEY)? {
                Some(next_index) => usize::from_be_bytes(next_index.try_into().unwrap()),
                None => 0,
            };
            Ok(Self { db, depth, next_index, leaves: vec![H::default_leaf(); 1 << depth] })
        }

        pub fn close(&mut self) -> PmtreeResult<()> {
            self.db.close()
        }

        pub fn set(&mut self, key: usize, leaf: H::Fr) -> PmtreeResult<()> {
            if key >= self.capacity() {
                return Err(PmtreeErrorKind::TreeError(TreeErrorKind::IndexOutOfBounds));
            }
            self.leaves[key] = leaf;
            self.next_index = max(self.next_index, key + 1);
            Ok(())
        }

        pub fn delete(&mut self, key: usize) -> PmtreeResult<()> {
            if key >= self.next_index {
                return Err(PmtreeErrorKind::TreeError(TreeErrorKind::InvalidKey));
            }
            self.set(key, H::default_leaf())
        }

        pub fn update_next(&mut self, leaf: H::Fr) -> PmtreeResult<()> {
            self.set(self.next_index, leaf)
        }

        pub fn set_range<I: IntoIterator<Item = H::Fr>>(&mut self, start: usize, leaves: I) -> PmtreeResult<()> {
            self.batch_insert(Some(start), leaves.into_iter().collect::<Vec<_>>().as_slice())
        }

        pub fn batch_insert(&mut self, start: Option<usize>, leaves: &[H::Fr]) -> PmtreeResult<()> {
            let start = start.unwrap_or(self.next_index);
            let end = start + leaves.len();
            if end > self.capacity() {
                return Err(PmtreeErrorKind::TreeError(TreeErrorKind::MerkleTreeIsFull));
            }
            let mut i = 0;
            while i < leaves.len() {
                self.leaves[start + i] = leaves[i];
                i += 1;
            }
            if end > self.next_index {
                self.next_index = end;
            }
            Ok(())
        }

        pub fn get(&self, key: usize) -> PmtreeResult<H::Fr> {
            if key >= self.capacity() {
                return Err(PmtreeErrorKind::TreeError(TreeErrorKind::IndexOutOfBounds));
            }
            Ok(self.leaves[key])
        }

        // ideal node (level, index): level == depth is the leaf row
        fn node(&self, level: usize, index: usize) -> H::Fr {
            if level >= self.depth {
                self.leaves[index]
            } else {
                H::hash(&[self.node(level + 1, 2 * index), self.node(level + 1, 2 * index + 1)])
            }
        }

        pub fn get_elem(&self, key: Key) -> PmtreeResult<H::Fr> {
            Ok(self.node(key.0, key.1))
        }

        pub fn root(&self) -> H::Fr {
            self.node(0, 0)
        }

        pub fn proof(&self, index: usize) -> PmtreeResult<MerkleProof<H>> {
            if index >= self.capacity() {
                return Err(PmtreeErrorKind::TreeError(TreeErrorKind::IndexOutOfBounds));
            }
            let mut witness = Vec::with_capacity(self.depth);
            let mut i = index;
            let mut depth = self.depth;
            while depth != 0 {
                i ^= 1;
                witness.push((self.node(depth, i), (1 - (i & 1)) as u8));
                i >>= 1;
                depth -= 1;
            }
            Ok(MerkleProof(witness))
        }

        pub fn verify(&self, leaf: &H::Fr, witness: &MerkleProof<H>) -> bool {
            self.root() == witness.compute_root_from(leaf)
        }

        pub fn leaves_set(&self) -> usize {
            self.next_index
        }

        pub fn capacity(&self) -> usize {
            1 << self.depth
        }

        pub fn depth(&self) -> usize {
            self.depth
        }
    }

    impl<H: Hasher> MerkleProof<H> {
        pub fn compute_root_from(&self, leaf: &H::Fr) -> H::Fr {
            let mut acc = *leaf;
            for w in self.0.iter() {
                if w.1 == 0 {
                    acc = H::hash(&[acc, w.0]);
                } else {
                    acc = H::hash(&[w.0, acc]);
                }
            }
            acc
        }
        pub fn leaf_index(&self) -> usize {
            self.get_path_index().into_iter().rev().fold(0, |acc, digit| (acc << 1) + usize::from(digit))
        }
        pub fn get_path_index(&self) -> Vec<u8> {
            self.0.iter().map(|x| x.1).collect()
        }
        pub fn get_path_elements(&self) -> Vec<H::Fr> {
            self.0.iter().map(|x| x.0).collect()
        }
        pub fn length(&self) -> usize {
            self.0.len()
        }
    }
}
