//! Verification stand-in for `sled` 0.34.7: ONLY the API surface that utils/src/pm_tree/sled_adapter.rs and
//! rln/src/pm_tree_adapter.rs use, as an in-memory NO-OP (no I/O, no threads, never fails).
//!
//! ASSUMED(dep): this is the unit's model of the storage engine: every write succeeds and stores nothing, every
//! read finds nothing.  That is enough because the stand-in for pmtree (kani/stubs/pmtree) keeps the tree state
//! itself and uses the database only to open it.  Durability and storage failures are property C16 (not decided).
//! The one piece of state: a `Config` made with the test-only `Config::kani_existing(depth, next_index)` stands
//! for "a database already exists at this location and holds a tree of that depth / high-water mark":
//! `Db::was_recovered()` is then true and `get` answers pmtree's two bookkeeping keys (depth, next_index).
#![allow(unused)]
use std::fmt;
use std::path::PathBuf;

// pmtree's bookkeeping keys (vacp2p_pmtree 2.0.2, src/tree.rs)
const DEPTH_KEY: [u8; 8] = (u64::MAX - 1).to_be_bytes();
const NEXT_INDEX_KEY: [u8; 8] = u64::MAX.to_be_bytes();

#[derive(Debug, Clone, Copy, PartialEq, Eq)]
pub enum Mode {
    LowSpace,
    HighThroughput,
}

#[derive(Debug, Clone)]
pub struct Config {
    pub path: PathBuf,
    pub temporary: bool,
    existing: Option<(usize, usize)>,
}
impl Default for Config {
    fn default() -> Config { Config { path: PathBuf::new(), temporary: false, existing: None } }
}
impl Config {
    pub fn new() -> Config { Config::default() }
    pub fn path<P: Into<PathBuf>>(mut self, p: P) -> Config { self.path = p.into(); self }
    pub fn temporary(mut self, t: bool) -> Config { self.temporary = t; self }
    pub fn cache_capacity(self, _c: u64) -> Config { self }
    pub fn flush_every_ms(self, _ms: Option<u64>) -> Config { self }
    pub fn mode(self, _m: Mode) -> Config { self }
    pub fn use_compression(self, _c: bool) -> Config { self }
    pub fn open(&self) -> Result<Db, Error> { Ok(Db { existing: self.existing }) }
    /// test-only: a database that already exists and holds a tree of this depth and high-water mark
    pub fn kani_existing(depth: usize, next_index: usize) -> Config {
        Config { path: PathBuf::new(), temporary: false, existing: Some((depth, next_index)) }
    }
}

#[derive(Debug)]
pub struct Error;
impl fmt::Display for Error {
    fn fmt(&self, _f: &mut fmt::Formatter<'_>) -> fmt::Result { Ok(()) }
}
impl std::error::Error for Error {}

#[derive(Debug, Clone, PartialEq, Eq)]
pub struct IVec(Vec<u8>);
impl IVec {
    pub fn to_vec(&self) -> Vec<u8> { self.0.clone() }
}

#[derive(Debug, Clone)]
pub struct Db {
    existing: Option<(usize, usize)>,
}
impl Db {
    pub fn was_recovered(&self) -> bool { self.existing.is_some() }
    pub fn get<K: AsRef<[u8]>>(&self, key: K) -> Result<Option<IVec>, Error> {
        if let Some((depth, next_index)) = self.existing {
            let k = key.as_ref();
            if k.len() == 8 {
                let mut is_depth = true;
                let mut is_next = true;
                let mut i = 0;
                while i < 8 {
                    if k[i] != DEPTH_KEY[i] { is_depth = false; }
                    if k[i] != NEXT_INDEX_KEY[i] { is_next = false; }
                    i += 1;
                }
                if is_depth { return Ok(Some(IVec(depth.to_be_bytes().to_vec()))); }
                if is_next { return Ok(Some(IVec(next_index.to_be_bytes().to_vec()))); }
            }
        }
        Ok(None)
    }
    pub fn insert<K, V>(&self, _key: K, _value: V) -> Result<Option<IVec>, Error> { Ok(None) }
    pub fn apply_batch(&self, _batch: Batch) -> Result<(), Error> { Ok(()) }
    pub fn flush(&self) -> Result<usize, Error> { Ok(0) }
}

#[derive(Debug, Default, Clone)]
pub struct Batch;
impl Batch {
    pub fn insert<K, V>(&mut self, _key: K, _value: V) {}
}
