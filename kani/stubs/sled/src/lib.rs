//! Verification stand-in for `sled` 0.34.7: ONLY the API surface that utils/src/pm_tree/sled_adapter.rs and
//! rln/src/pm_tree_adapter.rs use, as an in-memory engine without I/O or threads.
//!
//! ASSUMED(dep): this is the units' model of the storage engine.  By default (every `kani_ctl` switch off) every write
//! succeeds and is only *logged* (`kani_ctl::LOG`), every read finds nothing.  That is enough for unit pm_adapter_kani because the
//! stand-in for pmtree (kani/stubs/pmtree) keeps the tree state itself and uses the database only to open it.
//! Unit sled_adapter_kani (property C16: storage failures are reported) arms the FAULT PLAN in `kani_ctl`: an open, read, write or
//! flush can be made to fail, and the engine records what it was asked to store, so that the contract of the real `SledDB`
//! wrapper ("Ok only if the engine accepted exactly this write / flush; an engine failure is an Err") is checked against it.
//! Durability of sled itself (what survives a crash) is NOT modelled.
//! The one piece of tree state: a `Config` made with the test-only `Config::kani_existing(depth, next_index)` stands
//! for "a database already exists at this location and holds a tree of that depth / high-water mark":
//! `Db::was_recovered()` is then true and `get` answers pmtree's two bookkeeping keys (depth, next_index).
#![allow(unused)]
use std::fmt;
use std::path::PathBuf;

// pmtree's bookkeeping keys (vacp2p_pmtree 2.0.2, src/tree.rs)
const DEPTH_KEY: [u8; 8] = (u64::MAX - 1).to_be_bytes();
const NEXT_INDEX_KEY: [u8; 8] = u64::MAX.to_be_bytes();

#[derive(Debug, Clone, Copy, PartialEq, Eq)]
pub enum Mode {
    LowSpace,
    HighThroughput,
}

#[derive(Debug, Clone)]
pub struct Config {
    pub path: PathBuf,
    pub temporary: bool,
    existing: Option<(usize, usize)>,
}
impl Default for Config {
    fn default() -> Config { Config { path: PathBuf::new(), temporary: false, existing: None } }
}
impl Config {
    pub fn new() -> Config { Config::default() }
    pub fn path<P: Into<PathBuf>>(mut self, p: P) -> Config { self.path = p.into(); self }
    pub fn temporary(mut self, t: bool) -> Config { self.temporary = t; self }
    pub fn cache_capacity(self, _c: u64) -> Config { self }
    pub fn flush_every_ms(self, _ms: Option<u64>) -> Config { self }
    pub fn mode(self, _m: Mode) -> Config { self }
    pub fn use_compression(self, _c: bool) -> Config { self }
    pub fn open(&self) -> Result<Db, Error> {
        // fault plan: the k-th open of this run fails as OPEN_PLAN[k] says (0 = succeeds, 1 = "WouldBlock" I/O error, 2 = another error)
        let k = unsafe { kani_ctl::OPENS };
        unsafe { kani_ctl::OPENS = k + 1; }
        let plan = if k < kani_ctl::PLAN_LEN { unsafe { kani_ctl::OPEN_PLAN[k] } } else { 0 };
        match plan {
            0 => Ok(Db { existing: self.existing }),
            1 => Err(Error::WouldBlock),
            _ => Err(Error::Other),
        }
    }
    /// test-only: a database that already exists and holds a tree of this depth and high-water mark
    pub fn kani_existing(depth: usize, next_index: usize) -> Config {
        Config { path: PathBuf::new(), temporary: false, existing: Some((depth, next_index)) }
    }
}

#[derive(Debug)]
pub enum Error { WouldBlock, Other }
impl fmt::Display for Error {
    // sled renders a lock conflict as "IO error: ... WouldBlock ..."; the adapter looks for the word.  The stand-in renders exactly
    // the word (and nothing for other errors): `str::contains` then is one memcmp instead of the SIMD / two-way searcher CBMC chokes on
    fn fmt(&self, f: &mut fmt::Formatter<'_>) -> fmt::Result {
        match self { Error::WouldBlock => f.write_str("WouldBlock"), Error::Other => Ok(()) }
    }
}

/// fault plan and write log of the stand-in (only verification harnesses touch these; everything off by default)
pub mod kani_ctl {
    pub const PLAN_LEN: usize = 12;
    pub static mut OPEN_PLAN: [u8; PLAN_LEN] = [0; PLAN_LEN];
    pub static mut OPENS: usize = 0;
    pub static mut FAIL_READ: bool = false;
    pub static mut FAIL_WRITE: bool = false;
    pub static mut FAIL_FLUSH: bool = false;
    /// number of writes (single or batch entries) the engine accepted, and the first two of them: (key, value length, first 4 value bytes)
    pub static mut WRITES: usize = 0;
    pub static mut LOG: [([u8; 8], usize, [u8; 4]); 2] = [([0; 8], 0, [0; 4]); 2];
    pub static mut FLUSHES: usize = 0;
    /// what a read of key READ_KEY finds (None: nothing stored)
    pub static mut READ_KEY: [u8; 8] = [0; 8];
    pub static mut READ_VAL: Option<[u8; 2]> = None;
    pub(crate) fn digest(key: &[u8], val: &super::IVec) -> ([u8; 8], usize, [u8; 4]) {
        let mut k = [0u8; 8];
        let mut i = 0;
        while i < 8 && i < key.len() { k[i] = key[i]; i += 1; }
        (k, val.len, [val.bytes[0], val.bytes[1], val.bytes[2], val.bytes[3]])
    }
    pub(crate) fn log(e: ([u8; 8], usize, [u8; 4])) {
        unsafe {
            if WRITES < 2 { LOG[WRITES] = e; }
            WRITES += 1;
        }
    }
}
impl std::error::Error for Error {}

// a stored value WITHOUT heap storage (Kani 0.68 mis-models the drop of `Result<Option<heap type>, two-variant enum>`, whose
// discriminants all live in the Vec capacity niche: spurious "rust_dealloc ... layout" failures): the first 8 bytes + the length
#[derive(Debug, Clone, Copy, PartialEq, Eq)]
pub struct IVec { len: usize, bytes: [u8; 8] }
impl IVec {
    fn of(v: &[u8]) -> IVec {
        let mut bytes = [0u8; 8];
        let mut i = 0;
        while i < 8 && i < v.len() { bytes[i] = v[i]; i += 1; }
        IVec { len: v.len(), bytes }
    }
    pub fn to_vec(&self) -> Vec<u8> { self.bytes[..if self.len < 8 { self.len } else { 8 }].to_vec() }
}
// the Vec is forgotten, not dropped: Kani 0.68 reports a spurious `rust_dealloc ... layout` failure when a Vec<u8> that crossed the
// `Database::put` trait boundary is dropped here (not reproducible in isolation; the engine model does not care about the leak)
impl From<Vec<u8>> for IVec { fn from(v: Vec<u8>) -> IVec { let r = IVec::of(&v); core::mem::forget(v); r } }
impl From<&[u8]> for IVec { fn from(v: &[u8]) -> IVec { IVec::of(v) } }
impl<const N: usize> From<&[u8; N]> for IVec { fn from(v: &[u8; N]) -> IVec { IVec::of(&v[..]) } }

#[derive(Debug, Clone)]
pub struct Db {
    existing: Option<(usize, usize)>,
}
impl Db {
    pub fn was_recovered(&self) -> bool { self.existing.is_some() }
    pub fn get<K: AsRef<[u8]>>(&self, key: K) -> Result<Option<IVec>, Error> {
        if unsafe { kani_ctl::FAIL_READ } { return Err(Error::Other); }
        if let Some(v) = unsafe { kani_ctl::READ_VAL } {
            let k = key.as_ref();
            let rk = unsafe { kani_ctl::READ_KEY };
            let mut same = k.len() == 8;
            let mut i = 0;
            while same && i < 8 { if k[i] != rk[i] { same = false; } i += 1; }
            if same { return Ok(Some(IVec::of(&v))); }
        }
        if let Some((depth, next_index)) = self.existing {
            let k = key.as_ref();
            if k.len() == 8 {
                let mut is_depth = true;
                let mut is_next = true;
                let mut i = 0;
                while i < 8 {
                    if k[i] != DEPTH_KEY[i] { is_depth = false; }
                    if k[i] != NEXT_INDEX_KEY[i] { is_next = false; }
                    i += 1;
                }
                if is_depth { return Ok(Some(IVec::of(&depth.to_be_bytes()))); }
                if is_next { return Ok(Some(IVec::of(&next_index.to_be_bytes()))); }
            }
        }
        Ok(None)
    }
    pub fn insert<K: AsRef<[u8]>, V: Into<IVec>>(&self, key: K, value: V) -> Result<Option<IVec>, Error> {
        let v: IVec = value.into();
        if unsafe { kani_ctl::FAIL_WRITE } { return Err(Error::Other); }
        kani_ctl::log(kani_ctl::digest(key.as_ref(), &v));
        Ok(None)
    }
    /// atomic: either every entry of the batch is accepted or none
    pub fn apply_batch(&self, batch: Batch) -> Result<(), Error> {
        if unsafe { kani_ctl::FAIL_WRITE } { return Err(Error::Other); }
        let mut i = 0;
        while i < batch.n && i < 2 {
            kani_ctl::log(batch.entries[i]);
            i += 1;
        }
        while i < batch.n { kani_ctl::log(([0; 8], 0, [0; 4])); i += 1; }   // entries beyond the two kept slots: counted only
        Ok(())
    }
    pub fn flush(&self) -> Result<usize, Error> {
        if unsafe { kani_ctl::FAIL_FLUSH } { return Err(Error::Other); }
        unsafe { kani_ctl::FLUSHES += 1; }
        Ok(0)
    }
}

/// a write batch: fixed slots (at most 2 entries are kept, the count is exact): key, value length, first 4 value bytes
#[derive(Debug, Default, Clone)]
pub struct Batch { n: usize, entries: [([u8; 8], usize, [u8; 4]); 2] }
impl Batch {
    pub fn insert<K: Into<IVec>, V: Into<IVec>>(&mut self, key: K, value: V) {
        let k: IVec = key.into();
        let v: IVec = value.into();
        if self.n < 2 { self.entries[self.n] = kani_ctl::digest(&k.bytes, &v); }
        self.n += 1;
    }
}
