//! verification shim for color-eyre: same API surface as used by zerokit, no message formatting, no backtrace
use std::fmt;
pub struct Report;
#[derive(Debug)]
pub struct ShimErr;
impl fmt::Display for ShimErr { fn fmt(&self, _f: &mut fmt::Formatter<'_>) -> fmt::Result { Ok(()) } }
impl std::error::Error for ShimErr {}
static SHIM_ERR: ShimErr = ShimErr;
pub type Result<T, E = Report> = core::result::Result<T, E>;
impl Report {
    #[inline(always)]
    pub fn msg<M: fmt::Display + fmt::Debug + Send + Sync + 'static>(_m: M) -> Self { Report }
}
impl fmt::Display for Report { fn fmt(&self, _f: &mut fmt::Formatter<'_>) -> fmt::Result { Ok(()) } }
impl fmt::Debug for Report { fn fmt(&self, _f: &mut fmt::Formatter<'_>) -> fmt::Result { Ok(()) } }
impl<E: std::error::Error + Send + Sync + 'static> From<E> for Report {
    #[inline(always)]
    fn from(_e: E) -> Self { Report }
}
impl std::ops::Deref for Report {
    type Target = dyn std::error::Error + Send + Sync + 'static;
    fn deref(&self) -> &Self::Target { &SHIM_ERR }
}
impl AsRef<dyn std::error::Error + Send + Sync + 'static> for Report { fn as_ref(&self) -> &(dyn std::error::Error + Send + Sync + 'static) { &SHIM_ERR } }
impl AsRef<dyn std::error::Error + 'static> for Report { fn as_ref(&self) -> &(dyn std::error::Error + 'static) { &SHIM_ERR } }
pub mod eyre {
    pub use super::{Report, Result};
    pub trait WrapErr<T> { fn wrap_err<D: std::fmt::Display + Send + Sync + 'static>(self, d: D) -> super::Result<T>; }
    impl<T, E: std::error::Error + Send + Sync + 'static> WrapErr<T> for core::result::Result<T, E> {
        fn wrap_err<D: std::fmt::Display + Send + Sync + 'static>(self, _d: D) -> super::Result<T> { self.map_err(|_e| super::Report) }
    }
}
