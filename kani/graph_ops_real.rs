// Appended to rln/src/circuit/iden3calc/graph.rs of a scratch copy of /repo (never committed there).
// Property C19 on the REAL compiled functions that need no ark-ff Montgomery arithmetic:
//   u_lt u_gt u_lte u_gte, compute_shl_uint, compute_shr_uint, Operation::eval (all operators except
//   Mul / Div / Pow), UnoOperation::eval, TresOperation::eval, TresOperation::eval_fr.
// Operands are four symbolic limbs constrained only by `< p` (every canonical field element), the
// functions are loop-free or their loops are bounded by the limb count, unwinding assertions are on:
// a SUCCESSFUL harness is a complete proof of its clauses, not a bounded check.
//
// The specification side is written over plain `[u64; 4]` little-endian integers with its own compare /
// add / sub / shift (no ruint arithmetic, only `U256::from_limbs` / `as_limbs` as the bridge), taken
// from the property statement: signed comparison around (p-1)/2, integer division with 0 for a zero
// divisor, shifts and bitwise operators masked to 254 bits and reduced modulo p, result canonical.
// Clauses are selected by a symbolic `which`, so a failing clause never hides a sibling clause.
// Obligations are `kani::assert(cond, "<function>/<clause>")` (same meaning as `assert!`; Kani prints its
// message without the surrounding quotes that it adds to `assert!` messages).
// Harnesses that reach ruint's Knuth division (add_mod's `reduce_mod`, `/`, `%`) use unwind 6 (every loop
// there is bounded by the 4 limbs) with `--unwindset memcmp.0:34` from units.json for the 32-byte `==`.
#[cfg(kani)]
mod verif_kani {
    use super::*;
    use std::marker::PhantomData;

    type L = [u64; 4];
    // p = 21888242871839275222246405745257275088548364400416034343698204186575808495617 (BN254 scalar field)
    const P: L = [0x43e1f593f0000001, 0x2833e84879b97091, 0xb85045b68181585d, 0x30644e72e131a029];
    // (p - 1) / 2 : the largest "non-negative" element of circom's signed representation
    const HALF: L = [0xa1f0fac9f8000000, 0x9419f4243cdcb848, 0xdc2822db40c0ac2e, 0x183227397098d014];
    const ZERO: L = [0, 0, 0, 0];
    const ONE: L = [1, 0, 0, 0];
    const TOP254: u64 = 0x3fff_ffff_ffff_ffff;

    fn lt4(a: &L, b: &L) -> bool {
        if a[3] != b[3] { return a[3] < b[3]; }
        if a[2] != b[2] { return a[2] < b[2]; }
        if a[1] != b[1] { return a[1] < b[1]; }
        a[0] < b[0]
    }
    fn eq4(a: &L, b: &L) -> bool { a[0] == b[0] && a[1] == b[1] && a[2] == b[2] && a[3] == b[3] }
    fn add4(a: &L, b: &L) -> (L, bool) {
        let mut r = [0u64; 4];
        let mut c: u128 = 0;
        let mut i = 0;
        while i < 4 {
            let s = a[i] as u128 + b[i] as u128 + c;
            r[i] = s as u64;
            c = s >> 64;
            i += 1;
        }
        (r, c != 0)
    }
    fn sub4(a: &L, b: &L) -> (L, bool) {
        let mut r = [0u64; 4];
        let mut bw = false;
        let mut i = 0;
        while i < 4 {
            let (d1, b1) = a[i].overflowing_sub(b[i]);
            let (d2, b2) = d1.overflowing_sub(bw as u64);
            r[i] = d2;
            bw = b1 || b2;
            i += 1;
        }
        (r, bw)
    }
    // t mod p for t < 2p (one conditional subtraction; 2^254 < 2p, so every 254-bit value qualifies)
    fn red1(t: &L) -> L { if lt4(t, &P) { *t } else { sub4(t, &P).0 } }
    fn addmod(a: &L, b: &L) -> L { red1(&add4(a, b).0) } // a, b < p: the sum is < 2p < 2^255
    fn submod(a: &L, b: &L) -> L { if lt4(a, b) { sub4(&add4(a, &P).0, b).0 } else { sub4(a, b).0 } }
    fn bit(a: &L, i: usize) -> bool { i < 256 && (a[i / 64] >> (i % 64)) & 1 == 1 }
    // order-preserving image of the signed value: val(x) + (p-1)/2, val(x) = x - p for x > (p-1)/2
    fn key(x: &L) -> L { if lt4(&HALF, x) { sub4(&sub4(x, &HALF).0, &ONE).0 } else { add4(x, &HALF).0 } }
    // (a << n) mod 2^254 for n < 254 (checked against the bit-level definition in spec_shift_refs)
    fn shl254(a: &L, n: usize) -> L {
        let q = n / 64;
        let s = (n % 64) as u32;
        let mut r = [0u64; 4];
        let mut i = 0;
        while i < 4 {
            if i >= q {
                let lo = a[i - q] << s;
                let hi = if s > 0 && i >= q + 1 { a[i - q - 1] >> (64 - s) } else { 0 };
                r[i] = lo | hi;
            }
            i += 1;
        }
        r[3] &= TOP254;
        r
    }
    // a >> n for n < 256
    fn shr4(a: &L, n: usize) -> L {
        let q = n / 64;
        let s = (n % 64) as u32;
        let mut r = [0u64; 4];
        let mut i = 0;
        while i < 4 {
            if i + q < 4 {
                let lo = a[i + q] >> s;
                let hi = if s > 0 && i + q + 1 < 4 { a[i + q + 1] << (64 - s) } else { 0 };
                r[i] = lo | hi;
            }
            i += 1;
        }
        r
    }
    fn small(n: &L) -> bool { n[1] == 0 && n[2] == 0 && n[3] == 0 && n[0] < 254 }
    // circom: shifts by 254 or more give 0; otherwise the shifted value masked to 254 bits, reduced mod p
    fn shl_spec(a: &L, n: &L) -> L { if small(n) { red1(&shl254(a, n[0] as usize)) } else { ZERO } }
    fn shr_spec(a: &L, n: &L) -> L { if small(n) { shr4(a, n[0] as usize) } else { ZERO } }
    fn bw(a: &L, b: &L, op: u8) -> L {
        let mut r = [0u64; 4];
        let mut i = 0;
        while i < 4 {
            r[i] = match op { 0 => a[i] & b[i], 1 => a[i] | b[i], _ => a[i] ^ b[i] };
            i += 1;
        }
        r[3] &= TOP254;
        r
    }

    fn any_l() -> L { [kani::any(), kani::any(), kani::any(), kani::any()] }
    fn any_p() -> L { let x = any_l(); kani::assume(lt4(&x, &P)); x }
    fn u(x: L) -> U256 { U256::from_limbs(x) }
    fn l(x: U256) -> L { *x.as_limbs() }
    fn b2l(b: bool) -> L { [b as u64, 0, 0, 0] }
    fn fr_raw(x: L) -> Fr { ark_ff::Fp(BigInt(x), PhantomData) } // raw representation; never interpreted below

    // ---- the specification's own reference shifts against the bit-level definition --------------------
    #[kani::proof]
    #[kani::unwind(34)]
    fn spec_shift_refs() {
        let a = any_l();
        let n: usize = kani::any();
        let i: usize = kani::any();
        kani::assume(i < 256);
        if kani::any() {
            kani::assume(n < 254);
            let r = shl254(&a, n);
            kani::assert(bit(&r, i) == (n <= i && i < 254 && bit(&a, i - n)), "spec_shl254/bit-i-is-bit-i-minus-n-below-254");
        } else {
            kani::assume(n < 256);
            let r = shr4(&a, n);
            kani::assert(bit(&r, i) == (i + n < 256 && bit(&a, i + n)), "spec_shr4/bit-i-is-bit-i-plus-n");
        }
    }

    // ---- constants ---------------------------------------------------------------------------------------
    #[kani::proof]
    #[kani::unwind(34)]
    fn consts() {
        kani::assert(l(M) == P, "M/is-bn254-scalar-modulus");
        kani::assert(l(HALF_M) == HALF, "HALF_M/is-p-minus-1-over-2");
        let (d, c) = add4(&HALF, &HALF);
        kani::assert(!c && add4(&d, &ONE).0 == P, "HALF_M/is-p-minus-1-over-2");
    }

    // ---- signed comparisons ------------------------------------------------------------------------------
    #[kani::proof]
    #[kani::unwind(34)]
    fn signed_cmp() {
        let a = any_p();
        let b = any_p();
        let (ka, kb) = (key(&a), key(&b));
        let which: u8 = kani::any();
        if which == 0 { kani::assert(l(u_lt(&u(a), &u(b))) == b2l(lt4(&ka, &kb)), "u_lt/signed-less-than"); }
        if which == 1 { kani::assert(l(u_gt(&u(a), &u(b))) == b2l(lt4(&kb, &ka)), "u_gt/signed-greater-than"); }
        if which == 2 { kani::assert(l(u_lte(&u(a), &u(b))) == b2l(!lt4(&kb, &ka)), "u_lte/signed-less-or-equal"); }
        if which == 3 { kani::assert(l(u_gte(&u(a), &u(b))) == b2l(!lt4(&ka, &kb)), "u_gte/signed-greater-or-equal"); }
    }

    // ---- Operation::eval: comparison and logic operators -------------------------------------------------
    #[kani::proof]
    #[kani::unwind(34)]
    fn eval_cmp_logic() {
        let a = any_p();
        let b = any_p();
        let (ka, kb) = (key(&a), key(&b));
        let which: u8 = kani::any();
        if which == 0 { kani::assert(l(Operation::Eq.eval(u(a), u(b))) == b2l(a == b), "Operation_eval/eq"); }
        if which == 1 { kani::assert(l(Operation::Neq.eval(u(a), u(b))) == b2l(a != b), "Operation_eval/neq"); }
        if which == 2 { kani::assert(l(Operation::Lt.eval(u(a), u(b))) == b2l(lt4(&ka, &kb)), "Operation_eval/lt-signed"); }
        if which == 3 { kani::assert(l(Operation::Gt.eval(u(a), u(b))) == b2l(lt4(&kb, &ka)), "Operation_eval/gt-signed"); }
        if which == 4 { kani::assert(l(Operation::Leq.eval(u(a), u(b))) == b2l(!lt4(&kb, &ka)), "Operation_eval/leq-signed"); }
        if which == 5 { kani::assert(l(Operation::Geq.eval(u(a), u(b))) == b2l(!lt4(&ka, &kb)), "Operation_eval/geq-signed"); }
        if which == 6 { kani::assert(l(Operation::Land.eval(u(a), u(b))) == b2l(a != ZERO && b != ZERO), "Operation_eval/land"); }
        if which == 7 { kani::assert(l(Operation::Lor.eval(u(a), u(b))) == b2l(a != ZERO || b != ZERO), "Operation_eval/lor"); }
    }

    // ---- Operation::eval: Add / Sub ----------------------------------------------------------------------
    #[kani::proof]
    #[kani::unwind(6)]
    fn eval_add() {
        let a = any_p();
        let b = any_p();
        let r = l(Operation::Add.eval(u(a), u(b)));
        kani::assert(eq4(&r, &addmod(&a, &b)), "Operation_eval/add-is-sum-mod-p");
        kani::assert(lt4(&r, &P), "Operation_eval/add-canonical");
    }
    #[kani::proof]
    #[kani::unwind(6)]
    fn eval_sub() {
        let a = any_p();
        let b = any_p();
        let r = l(Operation::Sub.eval(u(a), u(b)));
        kani::assert(eq4(&r, &submod(&a, &b)), "Operation_eval/sub-is-difference-mod-p");
        kani::assert(lt4(&r, &P), "Operation_eval/sub-canonical");
    }

    // ---- Operation::eval: bitwise -------------------------------------------------------------------------
    #[kani::proof]
    #[kani::unwind(34)]
    fn eval_band() {
        let a = any_p();
        let b = any_p();
        let r = l(Operation::Band.eval(u(a), u(b)));
        let which: u8 = kani::any();
        if which == 0 { kani::assert(lt4(&r, &P), "Operation_eval/band-canonical"); }
        if which == 1 { kani::assert(r == red1(&bw(&a, &b, 0)), "Operation_eval/band-is-and-reduced-mod-p"); }
    }
    #[kani::proof]
    #[kani::unwind(34)]
    fn eval_bor() {
        let a = any_p();
        let b = any_p();
        let r = l(Operation::Bor.eval(u(a), u(b)));
        let t = bw(&a, &b, 1);
        let which: u8 = kani::any();
        if which == 0 { kani::assert(lt4(&r, &P), "Operation_eval/bor-canonical"); }
        if which == 1 { kani::assert(r == red1(&t), "Operation_eval/bor-is-or-reduced-mod-p"); }
        // sibling clause that must keep holding: when a|b is already below p nothing has to be reduced
        if which == 2 && lt4(&t, &P) { kani::assert(r == t, "Operation_eval/bor-exact-when-or-below-p"); }
    }
    #[kani::proof]
    #[kani::unwind(34)]
    fn eval_bxor() {
        let a = any_p();
        let b = any_p();
        let r = l(Operation::Bxor.eval(u(a), u(b)));
        let t = bw(&a, &b, 2);
        let which: u8 = kani::any();
        if which == 0 { kani::assert(lt4(&r, &P), "Operation_eval/bxor-canonical"); }
        if which == 1 { kani::assert(r == red1(&t), "Operation_eval/bxor-is-xor-reduced-mod-p"); }
        if which == 2 && lt4(&t, &P) { kani::assert(r == t, "Operation_eval/bxor-exact-when-xor-below-p"); }
    }

    // ---- Operation::eval: shifts (and the private helpers they dispatch to) -------------------------------
    #[kani::proof]
    #[kani::unwind(34)]
    fn shift_dispatch() {
        let a = any_p();
        let b = any_p();
        kani::assume(b[1] == 0 && b[2] == 0 && b[3] == 0 && b[0] < 256); // the helpers' debug_assert domain
        let which: u8 = kani::any();
        if which == 0 { kani::assert(Operation::Shl.eval(u(a), u(b)) == compute_shl_uint(u(a), u(b)), "Operation_eval/shl-is-compute_shl_uint"); }
        if which == 1 { kani::assert(Operation::Shr.eval(u(a), u(b)) == compute_shr_uint(u(a), u(b)), "Operation_eval/shr-is-compute_shr_uint"); }
    }
    // shift count below 254
    #[kani::proof]
    #[kani::unwind(34)]
    fn eval_shl_small() {
        let a = any_p();
        let b = any_p();
        kani::assume(small(&b));
        let r = l(Operation::Shl.eval(u(a), u(b)));
        let n = b[0] as usize;
        let which: u8 = kani::any();
        if which == 0 { kani::assert(lt4(&r, &P), "Operation_eval/shl-canonical"); }
        if which == 1 { kani::assert(r == shl_spec(&a, &b), "Operation_eval/shl-is-shift-masked-254-reduced-mod-p"); }
        // sibling clause: when no bit is shifted out of 254 bits and the shifted value is below p, it is exact
        if which == 2 && shr4(&shl254(&a, n), n) == a && lt4(&shl254(&a, n), &P) {
            kani::assert(r == shl254(&a, n), "Operation_eval/shl-exact-when-result-fits-below-p");
        }
    }
    // shift count 254 or 255: circom gives 0
    #[kani::proof]
    #[kani::unwind(34)]
    fn eval_shl_254_255() {
        let a = any_p();
        let b = any_p();
        kani::assume(b[1] == 0 && b[2] == 0 && b[3] == 0 && (b[0] == 254 || b[0] == 255));
        let r = l(Operation::Shl.eval(u(a), u(b)));
        kani::assert(r == ZERO, "Operation_eval/shl-by-254-or-255-is-zero");
    }
    // shift count 256 .. p-1: circom gives 0 (the helper has a debug_kani::assert(b < 256) and reads only the low limb)
    #[kani::proof]
    #[kani::unwind(34)]
    fn eval_shl_ge_256() {
        let a = any_p();
        let b = any_p();
        kani::assume(!(b[1] == 0 && b[2] == 0 && b[3] == 0 && b[0] < 256));
        let r = l(Operation::Shl.eval(u(a), u(b)));
        kani::assert(r == ZERO, "Operation_eval/shl-by-256-or-more-is-zero");
    }
    #[kani::proof]
    #[kani::unwind(34)]
    fn eval_shr_lt_256() {
        let a = any_p();
        let b = any_p();
        kani::assume(b[1] == 0 && b[2] == 0 && b[3] == 0 && b[0] < 256);
        let r = l(Operation::Shr.eval(u(a), u(b)));
        let i: usize = kani::any();
        kani::assume(i < 256);
        let which: u8 = kani::any();
        if which == 0 { kani::assert(lt4(&r, &P), "Operation_eval/shr-canonical"); }
        if which == 1 { kani::assert(r == shr_spec(&a, &b), "Operation_eval/shr-is-integer-shift-zero-from-254"); }
        // the same, stated bit by bit straight from the property statement
        if which == 2 {
            let expect = small(&b) && i + (b[0] as usize) < 254 && bit(&a, i + b[0] as usize);
            kani::assert(bit(&r, i) == expect, "Operation_eval/shr-bit-i-is-bit-i-plus-n");
        }
    }
    #[kani::proof]
    #[kani::unwind(34)]
    fn eval_shr_ge_256() {
        let a = any_p();
        let b = any_p();
        kani::assume(!(b[1] == 0 && b[2] == 0 && b[3] == 0 && b[0] < 256));
        let r = l(Operation::Shr.eval(u(a), u(b)));
        kani::assert(r == ZERO, "Operation_eval/shr-by-256-or-more-is-zero");
    }

    // ---- Operation::eval: integer division and remainder --------------------------------------------------
    #[kani::proof]
    #[kani::unwind(6)]
    fn eval_idiv_zero_divisor() {
        let a = any_p();
        let r = l(Operation::Idiv.eval(u(a), u(ZERO)));
        kani::assert(r == ZERO, "Operation_eval/idiv-by-zero-is-zero");
    }
    #[kani::proof]
    #[kani::unwind(6)]
    fn eval_mod_zero_divisor() {
        let a = any_p();
        let r = l(Operation::Mod.eval(u(a), u(ZERO)));
        kani::assert(r == ZERO, "Operation_eval/mod-by-zero-is-zero");
    }
    // Non-zero divisor: the quotient / remainder come from ruint's Knuth division.  A harness asserting
    // `q <= a` / `r < b` was tried (unwind 6): CBMC ran out of 12 GB in propositional reduction, so the VALUES of
    // Idiv / Mod for a non-zero divisor stay in the trusted base (ruint `/`, `%`), like Mul / Div / Pow.

    // ---- UnoOperation::eval / TresOperation::eval ----------------------------------------------------------
    #[kani::proof]
    #[kani::unwind(34)]
    fn uno_int_eval() {
        let a = any_p();
        let which: u8 = kani::any();
        if which == 0 {
            let r = l(UnoOperation::Neg.eval(u(a)));
            kani::assert(lt4(&r, &P), "UnoOperation_eval/neg-canonical");
        }
        if which == 1 {
            let r = l(UnoOperation::Neg.eval(u(a)));
            kani::assert(r == submod(&ZERO, &a), "UnoOperation_eval/neg-is-zero-minus-a-mod-p");
            kani::assert(addmod(&a, &r) == ZERO, "UnoOperation_eval/neg-is-additive-inverse");
        }
        if which == 2 { kani::assert(l(UnoOperation::Id.eval(u(a))) == a, "UnoOperation_eval/id-is-identity"); }
    }
    #[kani::proof]
    #[kani::unwind(34)]
    fn tres_int_eval() {
        let a = any_p();
        let b = any_p();
        let c = any_p();
        let r = l(TresOperation::TernCond.eval(u(a), u(b), u(c)));
        kani::assert(r == if a != ZERO { b } else { c }, "TresOperation_eval/terncond-selects-b-iff-a-nonzero");
        kani::assert(lt4(&r, &P), "TresOperation_eval/terncond-canonical");
    }

    // ---- TresOperation::eval_fr on the real type -----------------------------------------------------------
    // TresOperation::eval_fr only tests `a.is_zero()` (zero has the all-zero Montgomery representation)
    #[kani::proof]
    #[kani::unwind(34)]
    fn tres_mont_eval_fr() {
        let a = any_p();
        let b = any_p();
        let c = any_p();
        let r = TresOperation::TernCond.eval_fr(fr_raw(a), fr_raw(b), fr_raw(c));
        kani::assert(r.0 .0 == if a != ZERO { b } else { c }, "TresOperation_eval_fr/terncond-selects-b-iff-a-nonzero");
    }
}
