// Appended to rln/src/pm_tree_adapter.rs of a scratch copy of /repo (never committed there); unit pm_adapter_kani.
// Second opinion on the contracts of the Verus unit `pm_adapter` (specs/pm_adapter.rs.in), checked on the REAL
// compiled adapter (default features) and therefore independent of how a function body is written, plus the
// check of `PmTree::get_empty_leaves_indices` (iterator chain, an unchecked assumption of the Verus side).
// The two dependencies are replaced by executable stand-ins (units.json "patch_crates"):
//   kani/stubs/pmtree = the IDEAL tree with a high-water mark, i.e. the assumed dependency contract made executable,
//   kani/stubs/sled   = an in-memory no-op.
// Every harness is an inductive step from an ARBITRARY well-formed adapter state of depth 2 (capacity 4):
// symbolic high-water mark, symbolic leaves below it (default above it), symbolic written-flags below it
// (0 above it).  Batch shapes (number of written leaves / removal indices) are concrete per harness; positions
// and values are symbolic.  Field elements are never computed with: a leaf is the raw representation
// [x, 0, 0, 0] with symbolic x (x = 0 is the default leaf Fr::from(0)); the adapter only moves and compares them.
// BOUNDED checks (depth, shapes), reported as bounded.  Clause names are those of specs/pm_adapter.rs.in.
#[cfg(kani)]
mod verif_kani {
    use super::*;
    use std::marker::PhantomData;

    const D: usize = 2;
    const CAP: usize = 4;

    fn leaf(x: u64) -> Fr { ark_ff::Fp(ark_ff::BigInt([x, 0, 0, 0]), PhantomData) }
    fn same_fr(a: &Fr, b: &Fr) -> bool {
        a.0 .0[0] == b.0 .0[0] && a.0 .0[1] == b.0 .0[1] && a.0 .0[2] == b.0 .0[2] && a.0 .0[3] == b.0 .0[3]
    }

    #[derive(Clone, Copy)]
    struct St { leaves: [Fr; CAP], flags: [u8; CAP], mark: usize }

    fn db() -> SledDB { <SledDB as Database>::new(Config::new()).unwrap() }

    // an arbitrary well-formed PmTree of depth D and its abstract state
    fn any_wf() -> (PmTree, St) {
        let mark: usize = kani::any();
        kani::assume(mark <= CAP);
        let mut leaves = [leaf(0); CAP];
        let mut flags = [0u8; CAP];
        let mut k = 0;
        while k < CAP {
            if k < mark {
                leaves[k] = leaf(kani::any());
                flags[k] = kani::any();
            }
            k += 1;
        }
        let tree = pmtree::MerkleTree::<SledDB, PoseidonHash>::from_parts(db(), D, leaves.to_vec(), mark);
        (PmTree { tree, cached_leaves_indices: flags.to_vec(), metadata: Vec::new() }, St { leaves, flags, mark })
    }

    // observe the abstract state through the stand-in's read API; None if the flag vector has the wrong length
    fn observe(t: &PmTree) -> Option<St> {
        if t.cached_leaves_indices.len() != CAP || t.tree.depth() != D { return None; }
        let mut leaves = [leaf(0); CAP];
        let mut flags = [0u8; CAP];
        let mut k = 0;
        while k < CAP {
            leaves[k] = t.tree.get(k).unwrap();
            flags[k] = t.cached_leaves_indices[k];
            k += 1;
        }
        Some(St { leaves, flags, mark: t.tree.leaves_set() })
    }
    fn same_leaves(a: &St, b: &St) -> bool {
        let mut ok = true;
        let mut k = 0;
        while k < CAP { if !same_fr(&a.leaves[k], &b.leaves[k]) { ok = false; } k += 1; }
        ok
    }
    fn same_flags(a: &St, b: &St) -> bool {
        let mut ok = true;
        let mut k = 0;
        while k < CAP { if a.flags[k] != b.flags[k] { ok = false; } k += 1; }
        ok
    }
    fn same(a: &St, b: &St) -> bool { same_leaves(a, b) && same_flags(a, b) && a.mark == b.mark }
    // wf of specs/pm_adapter.rs.in: mark <= cap, default leaves and 0 flags from the mark on
    fn wf(s: &St) -> bool {
        let mut ok = s.mark <= CAP;
        let mut k = 0;
        while k < CAP {
            if k >= s.mark && (s.flags[k] != 0 || !same_fr(&s.leaves[k], &leaf(0))) { ok = false; }
            k += 1;
        }
        ok
    }
    fn unchanged(t: &PmTree, old: &St) -> bool {
        match observe(t) { Some(s) => same(&s, old) && t.metadata.is_empty(), None => false }
    }

    // ---- the harness vocabulary itself ----------------------------------------------------------------------
    #[kani::proof]
    #[kani::unwind(10)]
    fn pm_vocabulary() {
        // the default leaf is the all-zero representation, and the arbitrary state is what the observer sees
        kani::assert(same_fr(&PoseidonHash::default_leaf(), &leaf(0)), "default_leaf/is-raw-zero");
        let (t, s) = any_wf();
        kani::assert(wf(&s), "any_wf/is-wf");
        kani::assert(unchanged(&t, &s), "observe/sees-the-constructed-state");
    }

    // ---- PmTree::new on a location without a database ----------------------------------------------------------
    // SledDB::load (utils, real code) builds its "Database was not recovered: <path>" message with format!; string
    // formatting of a path is beyond CBMC (10 GB exhausted) and the text is irrelevant (it ends in a dropped error
    // value), so `std::fmt::format` is stubbed by the empty string in this one harness.
    fn no_text(_args: std::fmt::Arguments<'_>) -> String { String::new() }
    #[kani::proof]
    #[kani::unwind(10)]
    #[kani::stub(std::fmt::format, no_text)]
    fn pm_new_fresh() {
        let r = PmTree::new(D, PoseidonHash::default_leaf(), PmtreeConfig(Config::new()));
        kani::assert(r.is_ok(), "new/fresh-tree-accepted");
        let t = r.unwrap();
        let s = observe(&t);
        kani::assert(s.is_some(), "new/new-fresh-tree-is-wf-and-empty");
        let s = s.unwrap();
        kani::assert(wf(&s) && s.mark == 0 && t.tree.depth() == D && t.metadata.is_empty(), "new/new-fresh-tree-is-wf-and-empty");
    }
    // ---- PmTree::new on an existing database (close + reopen): KNOWN FINDINGS ----------------------------------
    // The stand-in database "exists" with a tree of depth d0 and mark m0; the flags its last user had are any
    // wf flag vector.  PmTree::new is called with a depth argument of its own.
    #[kani::proof]
    #[kani::unwind(10)]
    fn pm_new_reopen() {
        let d0: usize = kani::any();
        kani::assume(d0 == 1 || d0 == 2);
        let m0: usize = kani::any();
        kani::assume(m0 <= (1usize << d0));
        let mut persisted = [0u8; CAP];
        let mut k = 0;
        while k < CAP { if k < m0 { persisted[k] = kani::any(); } k += 1; }
        let depth_arg: usize = kani::any();
        kani::assume(depth_arg == 1 || depth_arg == 2);
        let r = PmTree::new(depth_arg, PoseidonHash::default_leaf(), PmtreeConfig(Config::kani_existing(d0, m0)));
        kani::assert(r.is_ok(), "new/reopen-accepted");
        let t = r.unwrap();
        kani::assert(t.tree.depth() == d0 && t.tree.leaves_set() == m0, "new/reopen-loads-the-existing-tree");
        let which: u8 = kani::any();
        if which == 0 {
            kani::assert(t.cached_leaves_indices.len() == (1usize << d0), "new/reopen-is-wf");
        }
        if which == 1 && t.cached_leaves_indices.len() == (1usize << d0) {
            let mut k = 0;
            while k < (1usize << d0) {
                kani::assert(t.cached_leaves_indices[k] == persisted[k], "new/reopen-restores-written-flags");
                k += 1;
            }
        }
    }

    // ---- set / delete / update_next / get -------------------------------------------------------------------------
    #[kani::proof]
    #[kani::unwind(10)]
    fn pm_set_step() {
        let (mut t, old) = any_wf();
        let i: usize = kani::any();
        let v = leaf(kani::any());
        let r = t.set(i, v);
        if i >= CAP {
            kani::assert(r.is_err() && unchanged(&t, &old), "set/set-rejected-changes-nothing");
        } else {
            kani::assert(r.is_ok(), "set/in-range-accepted");
            let s = observe(&t);
            kani::assert(s.is_some(), "set/set-keeps-wf");
            let s = s.unwrap();
            let mut e = old;
            e.leaves[i] = v;
            e.flags[i] = 1;
            e.mark = std::cmp::max(old.mark, i + 1);
            let which: u8 = kani::any();
            if which == 0 { kani::assert(wf(&s) && t.metadata.is_empty(), "set/set-keeps-wf"); }
            if which == 1 { kani::assert(same_leaves(&s, &e), "set/set-writes-exactly-one-leaf"); }
            if which == 2 { kani::assert(s.mark == e.mark, "set/set-high-water-mark"); }
            if which == 3 { kani::assert(same_flags(&s, &e), "set/set-marks-written"); }
        }
    }
    #[kani::proof]
    #[kani::unwind(10)]
    fn pm_delete_step() {
        let (mut t, old) = any_wf();
        let i: usize = kani::any();
        let r = t.delete(i);
        if i >= old.mark {
            kani::assert(r.is_err() && unchanged(&t, &old), "delete/delete-beyond-mark-rejected-changes-nothing");
        } else {
            kani::assert(r.is_ok(), "delete/below-mark-accepted");
            let s = observe(&t);
            kani::assert(s.is_some(), "delete/delete-keeps-wf");
            let s = s.unwrap();
            let mut e = old;
            e.leaves[i] = leaf(0);
            e.flags[i] = 0;
            let which: u8 = kani::any();
            if which == 0 { kani::assert(wf(&s) && t.metadata.is_empty(), "delete/delete-keeps-wf"); }
            if which == 1 { kani::assert(same_leaves(&s, &e) && s.mark == old.mark, "delete/delete-resets-leaf"); }
            if which == 2 { kani::assert(same_flags(&s, &e), "delete/delete-marks-empty"); }
        }
    }
    #[kani::proof]
    #[kani::unwind(10)]
    fn pm_update_next_step() {
        let (mut t, old) = any_wf();
        let v = leaf(kani::any());
        let r = t.update_next(v);
        if old.mark >= CAP {
            kani::assert(r.is_err() && unchanged(&t, &old), "update_next/append-full-tree-rejected");
        } else {
            kani::assert(r.is_ok(), "update_next/append-accepted");
            let s = observe(&t);
            kani::assert(s.is_some(), "update_next/append-keeps-wf");
            let s = s.unwrap();
            let mut e = old;
            e.leaves[old.mark] = v;
            e.flags[old.mark] = 1;
            e.mark = old.mark + 1;
            let which: u8 = kani::any();
            if which == 0 { kani::assert(wf(&s) && t.metadata.is_empty(), "update_next/append-keeps-wf"); }
            if which == 1 { kani::assert(same_leaves(&s, &e) && s.mark == e.mark, "update_next/append-writes-at-high-water-mark"); }
            if which == 2 { kani::assert(same_flags(&s, &e), "update_next/append-marks-written"); }
        }
    }
    #[kani::proof]
    #[kani::unwind(10)]
    fn pm_get_step() {
        let (t, old) = any_wf();
        let i: usize = kani::any();
        let r = t.get(i);
        if i >= CAP {
            kani::assert(r.is_err(), "get/get-rejects-out-of-range");
        } else {
            kani::assert(r.is_ok() && same_fr(&r.unwrap(), &old.leaves[i]), "get/get-returns-leaf");
        }
        kani::assert(unchanged(&t, &old), "get/get-changes-nothing");
        kani::assert(t.capacity() == CAP && t.depth() == D, "capacity/capacity-is-pow2-depth");
        kani::assert(t.leaves_set() == old.mark, "leaves_set/leaves-set-is-high-water-mark");
    }

    // ---- get_empty_leaves_indices == ascending positions below the mark whose flag is 0 -----------------------------
    #[kani::proof]
    #[kani::unwind(10)]
    fn pm_empty_indices() {
        let (t, old) = any_wf();
        let r = t.get_empty_leaves_indices();
        let mut expect = [0usize; CAP];
        let mut n = 0;
        let mut k = 0;
        while k < CAP {
            if k < old.mark && old.flags[k] == 0 { expect[n] = k; n += 1; }
            k += 1;
        }
        kani::assert(r.len() == n, "get_empty_leaves_indices/exactly-unset-below-mark-ascending");
        let mut k = 0;
        while k < CAP {
            if k < n && k < r.len() { kani::assert(r[k] == expect[k], "get_empty_leaves_indices/exactly-unset-below-mark-ascending"); }
            k += 1;
        }
        kani::assert(unchanged(&t, &old), "get_empty_leaves_indices/changes-nothing");
    }

    // ---- set_range, n concrete ---------------------------------------------------------------------------------------
    fn vals(n: usize) -> ([Fr; 3], Vec<Fr>) {
        let a = [leaf(kani::any()), leaf(kani::any()), leaf(kani::any())];
        let mut v = Vec::new();
        let mut k = 0;
        while k < n { v.push(a[k]); k += 1; }
        (a, v)
    }
    fn set_range_step(n: usize) {
        let (mut t, old) = any_wf();
        let start: usize = kani::any();
        kani::assume(start <= usize::MAX / 2); // pmtree adds start + len unchecked (Verus: same precondition)
        let (va, v) = vals(n);
        let r = t.set_range(start, v.into_iter());
        if start > CAP || n > CAP - start {
            kani::assert(r.is_err() && unchanged(&t, &old), "set_range/range-write-rejected-changes-nothing");
        } else {
            kani::assert(r.is_ok(), "set_range/in-range-accepted");
            let s = observe(&t);
            kani::assert(s.is_some(), "set_range/range-write-keeps-wf");
            let s = s.unwrap();
            let mut e = old;
            let mut k = 0;
            while k < n { e.leaves[start + k] = va[k]; e.flags[start + k] = 1; k += 1; }
            // from the property (plain array): an empty write moves nothing
            e.mark = if n > 0 { std::cmp::max(old.mark, start + n) } else { old.mark };
            let which: u8 = kani::any();
            if which == 0 { kani::assert(wf(&s) && t.metadata.is_empty(), "set_range/range-write-keeps-wf"); }
            if which == 1 { kani::assert(same_leaves(&s, &e), "set_range/range-write-writes-exactly-the-range"); }
            if which == 3 { kani::assert(s.mark == e.mark, "set_range/range-write-high-water-mark"); }
            if which == 2 { kani::assert(same_flags(&s, &e), "set_range/range-write-marks-written-range"); }
        }
    }
    #[kani::proof]
    #[kani::unwind(10)]
    fn pm_set_range_w0() { set_range_step(0); }
    #[kani::proof]
    #[kani::unwind(10)]
    fn pm_set_range_w2() { set_range_step(2); }
    #[kani::proof]
    #[kani::unwind(10)]
    fn pm_set_range_w3() { set_range_step(3); }

    // ---- enumeration of positions ----------------------------------------------------------------------------------
    // `Vec::with_capacity(end - start)` / `vec![d; max_index - min_index]` with capacities derived from SYMBOLIC positions
    // exhaust CBMC (symbolic-size allocations), so wherever the real code sizes a buffer from positions the positions
    // are enumerated: the step runs once per concrete tuple, selected by a symbolic choice.  Positions range over
    // 0..=LIM: 0..=3 inside the tree, 4 (= capacity) stands for every position outside it.
    const LIM: usize = 4;
    #[derive(Clone, Copy, PartialEq, Eq)]
    enum Class { Values, RemovalAfterRange, RemovalInsideRange, RemovalOutsideTree }
    #[derive(Clone, Copy)]
    enum Kind { RemoveIndices, Override, RmAndSet(Class) }
    // n written leaves, m removal positions; `with_start`: enumerate `start` too; `sorted`: ascending removals only
    fn enumerate(kind: Kind, n: usize, m: usize, with_start: bool, sorted: bool) {
        let cs: usize = kani::any();
        let c: [usize; 3] = [kani::any(), kani::any(), kani::any()];
        let s_hi = if with_start { LIM } else { 0 };
        let b_hi = if m >= 2 { LIM } else { 0 };
        let d_hi = if m >= 3 { LIM } else { 0 };
        let mut st = 0;
        while st <= s_hi {
            let mut a = 0;
            while a <= LIM {
                let mut b = if sorted && m >= 2 { a } else { 0 };
                while b <= b_hi {
                    let mut d = if sorted && m >= 3 { b } else { 0 };
                    while d <= d_hi {
                        if cs == st && c[0] == a && c[1] == b && c[2] == d {
                            match kind {
                                Kind::RemoveIndices => remove_indices_at([a, b, d], m),
                                Kind::Override => override_range_at(st, n, [a, b, d], m),
                                Kind::RmAndSet(class) => rm_and_set_at(st, n, [a, b, d], m, class),
                            }
                            return;
                        }
                        d += 1;
                    }
                    b += 1;
                }
                a += 1;
            }
            st += 1;
        }
    }
    fn idx_vec(ra: &[usize; 3], m: usize) -> Vec<usize> {
        let mut v = Vec::new();
        let mut k = 0;
        while k < m { v.push(ra[k]); k += 1; }
        v
    }
    fn reset_all(old: &St, ra: &[usize; 3], m: usize) -> St {
        let mut e = *old;
        let mut k = 0;
        while k < m { if ra[k] < CAP { e.leaves[ra[k]] = leaf(0); e.flags[ra[k]] = 0; } k += 1; }
        e
    }

    // ---- remove_indices (private), m sorted removal positions as override_range passes them -----------------------------
    fn remove_indices_at(ra: [usize; 3], m: usize) {
        let (mut t, old) = any_wf();
        let r = t.remove_indices(&idx_vec(&ra, m));
        if ra[m - 1] >= old.mark {
            kani::assert(r.is_err() && unchanged(&t, &old), "remove_indices/removal-beyond-mark-rejected-changes-nothing");
        } else {
            kani::assert(r.is_ok(), "remove_indices/below-mark-accepted");
            let s = observe(&t);
            kani::assert(s.is_some(), "remove_indices/removals-keep-high-water-mark");
            let s = s.unwrap();
            let e = reset_all(&old, &ra, m);
            let which: u8 = kani::any();
            if which == 0 { kani::assert(wf(&s) && t.metadata.is_empty() && s.mark == old.mark, "remove_indices/removals-keep-high-water-mark"); }
            if which == 1 { kani::assert(same_leaves(&s, &e), "remove_indices/removals-reset-exactly-the-listed-positions"); }
            if which == 2 { kani::assert(same_flags(&s, &e), "remove_indices/removals-mark-exactly-the-listed-positions-empty"); }
        }
    }
    #[kani::proof]
    #[kani::unwind(7)]
    fn pm_remove_indices_r2() { enumerate(Kind::RemoveIndices, 0, 2, false, true); }
    #[kani::proof]
    #[kani::unwind(7)]
    fn pm_remove_indices_r3() { enumerate(Kind::RemoveIndices, 0, 3, false, true); }

    // ---- override_range: the dispatch shapes (n written leaves, m removal indices) ------------------------------------
    // contract of specs/pm_adapter.rs.in; in addition, with the ideal (never failing) storage every Err leaves the
    // adapter unchanged ("batch-error-changes-nothing").
    fn override_range_check(t: &PmTree, old: &St, r: &Result<()>, start: usize, n: usize, va: &[Fr; 3], ra: &[usize; 3], m: usize) {
        let mut out_of_range = n > 0 && (start > CAP || n > CAP - start);
        let mut k = 0;
        while k < m { if ra[k] >= CAP { out_of_range = true; } k += 1; }
        let which: u8 = kani::any();
        if n == 0 && m == 0 {
            kani::assert(r.is_err() && unchanged(t, old), "override_range/empty-batch-rejected-changes-nothing");
        } else if out_of_range {
            kani::assert(r.is_err() && unchanged(t, old), "override_range/batch-rejected-changes-nothing");
        } else if r.is_err() {
            kani::assert(unchanged(t, old), "override_range/batch-error-changes-nothing");
        } else {
            let s = observe(t);
            kani::assert(s.is_some(), "override_range/batch-keeps-wf");
            let s = s.unwrap();
            let mut e = reset_all(old, ra, m);
            let mut k = 0;
            while k < n { e.leaves[start + k] = va[k]; e.flags[start + k] = 1; k += 1; }
            e.mark = if n > 0 { std::cmp::max(old.mark, start + n) } else { old.mark };
            if which == 0 { kani::assert(wf(&s) && t.metadata.is_empty(), "override_range/batch-keeps-wf"); }
            if which == 1 { kani::assert(same_leaves(&s, &e), "override_range/batch-equals-reset-then-write"); }
            if which == 2 { kani::assert(same_flags(&s, &e), "override_range/batch-marks-removed-empty-written-set"); }
            if which == 3 { kani::assert(s.mark == e.mark, "override_range/batch-high-water-mark"); }
        }
    }
    // shapes whose code path sizes no buffer from positions: start and the removal position fully symbolic
    fn override_range_step(n: usize, m: usize) {
        let (mut t, old) = any_wf();
        let start: usize = kani::any();
        kani::assume(start <= usize::MAX / 2);
        let (va, v) = vals(n);
        let ra: [usize; 3] = [kani::any(), kani::any(), kani::any()];
        let r = t.override_range(start, v.into_iter(), idx_vec(&ra, m).into_iter());
        override_range_check(&t, &old, &r, start, n, &va, &ra, m);
    }
    // removal-only batches (-> sort + remove_indices): enumerated positions, any order
    fn override_range_at(start: usize, n: usize, ra: [usize; 3], m: usize) {
        let (mut t, old) = any_wf();
        let (va, v) = vals(n);
        let r = t.override_range(start, v.into_iter(), idx_vec(&ra, m).into_iter());
        override_range_check(&t, &old, &r, start, n, &va, &ra, m);
    }
    #[kani::proof]
    #[kani::unwind(10)]
    fn pm_override_w0_r0() { override_range_step(0, 0); }
    #[kani::proof]
    #[kani::unwind(10)]
    fn pm_override_w1_r0() { override_range_step(1, 0); }
    #[kani::proof]
    #[kani::unwind(10)]
    fn pm_override_w0_r1() { override_range_step(0, 1); }
    #[kani::proof]
    #[kani::unwind(10)]
    fn pm_override_w2_r0() { override_range_step(2, 0); }
    #[kani::proof]
    #[kani::unwind(7)]
    fn pm_override_w0_r2() { enumerate(Kind::Override, 0, 2, false, false); }

    // ---- override_range with both writes and removals = remove_indices_and_set_leaves: KNOWN FINDINGS -------------------
    // (not fixed in /repo: pinned by the existing test rln::poseidon_tree::test::test_get_empty_leaves_indices).
    // The value clauses are checked where the function does not crash (every removal inside the tree and the first
    // removal not after `start`); each crash class has its own harness whose reachable panic is reported under the
    // Verus clause that guards it (units.json "panic_clause").  Positions are enumerated (see `enumerate`).
    fn rm_and_set_at(start: usize, n: usize, ra: [usize; 3], m: usize, class: Class) {
        let mut min = usize::MAX;
        let mut outside = false;
        let mut k = 0;
        while k < m {
            if ra[k] < min { min = ra[k]; }
            if ra[k] >= CAP { outside = true; }
            k += 1;
        }
        let in_class = match class {
            Class::Values => min <= start && !outside,
            Class::RemovalAfterRange => min > start + n,
            Class::RemovalInsideRange => start < min && min <= start + n,
            Class::RemovalOutsideTree => min <= start && outside,
        };
        if !in_class { return; }
        let (mut t, old) = any_wf();
        let (va, v) = vals(n);
        let r = t.override_range(start, v.into_iter(), idx_vec(&ra, m).into_iter());
        let out_of_range = start > CAP || n > CAP - start || outside;
        let which: u8 = kani::any();
        if out_of_range {
            kani::assert(r.is_err() && unchanged(&t, &old), "remove_indices_and_set_leaves/removals-and-writes-rejected-changes-nothing");
        } else if r.is_ok() {
            let s = observe(&t);
            kani::assert(s.is_some(), "remove_indices_and_set_leaves/removals-and-writes-keep-wf");
            let s = s.unwrap();
            let mut e = reset_all(&old, &ra, m);
            let mut k = 0;
            while k < n { e.leaves[start + k] = va[k]; e.flags[start + k] = 1; k += 1; }
            e.mark = std::cmp::max(old.mark, start + n);
            if which == 0 { kani::assert(wf(&s) && t.metadata.is_empty(), "remove_indices_and_set_leaves/removals-and-writes-keep-wf"); }
            if which == 1 { kani::assert(same_leaves(&s, &e), "remove_indices_and_set_leaves/removals-and-writes-equal-reset-then-write"); }
            if which == 2 { kani::assert(same_flags(&s, &e), "remove_indices_and_set_leaves/removals-and-writes-flags"); }
            if which == 3 { kani::assert(s.mark == e.mark, "remove_indices_and_set_leaves/removals-and-writes-high-water-mark"); }
        } else {
            kani::assert(unchanged(&t, &old), "remove_indices_and_set_leaves/removals-and-writes-error-changes-nothing");
        }
    }
    #[kani::proof]
    #[kani::unwind(7)]
    fn pm_rm_and_set_w1_r1_values() { enumerate(Kind::RmAndSet(Class::Values), 1, 1, true, true); }
    #[kani::proof]
    #[kani::unwind(7)]
    fn pm_rm_and_set_w2_r1_values() { enumerate(Kind::RmAndSet(Class::Values), 2, 1, true, true); }
    // (1 leaf + 2 removals in the Values class was tried: CBMC exhausts 10 GB over the enumeration; not listed)
    #[kani::proof]
    #[kani::unwind(7)]
    fn pm_rm_and_set_w1_r1_after_range() { enumerate(Kind::RmAndSet(Class::RemovalAfterRange), 1, 1, true, true); }
    #[kani::proof]
    #[kani::unwind(7)]
    fn pm_rm_and_set_w2_r1_inside_range() { enumerate(Kind::RmAndSet(Class::RemovalInsideRange), 2, 1, true, true); }
    #[kani::proof]
    #[kani::unwind(7)]
    fn pm_rm_and_set_w1_r2_outside_tree() { enumerate(Kind::RmAndSet(Class::RemovalOutsideTree), 1, 2, true, true); }
}
