
// ---------------------------------------------------------------------------------------------------------------
// Kani second opinion for rln/src/protocol.rs (properties C04 / C12): compute_tree_root, merkle_path_check as compiled,
// independent of how their bodies are written.  Poseidon is replaced (kani::stub) by a cheap order- and arity-sensitive
// mixing function on raw limbs: the clause compares against the fold written from the statement with the SAME function,
// i.e. "the root is the fold of H(H(s), limit) along the path, bit 0 = the running value is the LEFT input".
// Bounded: paths of length <= 3; field elements are raw representations [x,0,0,0] with symbolic x (no field arithmetic).
// ---------------------------------------------------------------------------------------------------------------
#[cfg(kani)]
mod verif_kani {
    use super::*;
    use std::marker::PhantomData;

    fn raw(x: u64) -> Fr { ark_ff::Fp(ark_ff::BigInt([x, 0, 0, 0]), PhantomData) }
    fn limb(f: &Fr) -> u64 { f.0 .0[0] }
    // limb-wise comparison: `==` on Fr is a 32-byte memcmp (needs an unwinding bound of 33)
    fn same_fr(a: &Fr, b: &Fr) -> bool {
        a.0 .0[0] == b.0 .0[0] && a.0 .0[1] == b.0 .0[1] && a.0 .0[2] == b.0 .0[2] && a.0 .0[3] == b.0 .0[3]
    }

    // stand-in for crate::hashers::poseidon_hash: injective enough to tell order and arity apart, no field arithmetic
    fn toy_hash(input: &[Fr]) -> Fr {
        match input.len() {
            1 => raw(limb(&input[0]).rotate_left(7) ^ 0x1111_1111_1111_1111),
            2 => raw(limb(&input[0]).rotate_left(13) ^ limb(&input[1]).rotate_left(29) ^ 0x2222_2222_2222_2222),
            _ => raw(0x3333_3333_3333_3333),
        }
    }

    fn fold_ref(secret: &Fr, limit: &Fr, elems: &[Fr], bits: &[u8]) -> Fr {
        let mut acc = toy_hash(&[toy_hash(&[*secret]), *limit]);
        let mut i = 0;
        while i < bits.len() {
            acc = if bits[i] == 0 { toy_hash(&[acc, elems[i]]) } else { toy_hash(&[elems[i], acc]) };
            i += 1;
        }
        acc
    }

    #[kani::proof]
    #[kani::unwind(5)]
    #[kani::stub(crate::hashers::poseidon_hash, toy_hash)]
    fn tree_root_upto3() {
        let secret = raw(kani::any());
        let limit = raw(kani::any());
        let elems = [raw(kani::any()), raw(kani::any()), raw(kani::any())];
        let bits: [u8; 3] = kani::any();
        kani::assume(bits[0] <= 1 && bits[1] <= 1 && bits[2] <= 1);
        let n: usize = kani::any();
        kani::assume(n <= 3);
        let got = compute_tree_root(&secret, &limit, &elems[..n], &bits[..n]);
        assert!(same_fr(&got, &fold_ref(&secret, &limit, &elems[..n], &bits[..n])), "compute_tree_root/root-is-fold-of-rate-commitment-along-path");
    }

    #[kani::proof]
    #[kani::unwind(6)]
    fn path_check_upto4() {
        let elems = [raw(kani::any()), raw(kani::any()), raw(kani::any()), raw(kani::any())];
        let bits: [u8; 4] = kani::any();
        let ne: usize = kani::any();
        let nb: usize = kani::any();
        kani::assume(ne <= 4 && nb <= 4);
        let r = merkle_path_check(&elems[..ne], &bits[..nb]);
        let mut binary = true;
        let mut i = 0;
        while i < nb { if bits[i] > 1 { binary = false; } i += 1; }
        if ne != nb {
            assert!(r.is_err(), "merkle_path_check/rejects-path-of-wrong-length");
        } else if !binary {
            assert!(r.is_err(), "merkle_path_check/rejects-non-binary-direction");
        } else {
            assert!(r.is_ok(), "merkle_path_check/accepts-well-formed-path");
        }
    }
}
