
// ---------------------------------------------------------------------------------------------------------------
// Kani contracts for utils/src/pm_tree/sled_adapter.rs (property C16: "If a storage write or flush fails during an
// operation, that operation reports an error rather than success"; reopen: load succeeds exactly on an existing database).
// Appended to the REAL source file of a scratch copy: `SledDB` and its private `new_with_tries` are the compiled originals.
// The storage engine is the stand-in kani/stubs/sled (ASSUMED dependency model): an engine whose open / read / write /
// flush can fail as the symbolic fault plan says, and which logs what it accepted.  Every harness is loop-free in the code
// under test except `new_with_tries` (recursion bounded by its own 10-try limit, unwinding assertions on).
// ---------------------------------------------------------------------------------------------------------------
#[cfg(kani)]
mod verif_kani {
    use super::*;
    use sled::kani_ctl as ctl;

    // error texts are formatted with `format!` (Debug of the whole configuration): the value is never inspected
    fn no_text(_args: std::fmt::Arguments<'_>) -> String { String::new() }
    // the retry loop sleeps 10^tries ms between attempts
    fn no_sleep(_d: Duration) {}

    // Kani 0.68 mis-models the drop glue of `Result<_, PmtreeErrorKind>` (nested enums whose discriminants share the String
    // capacity niche: spurious "rust_dealloc ... layout" failure when an Err(TreeError(InvalidKey)) is dropped).  The harness only
    // needs the verdict, so the result is forgotten instead of dropped.  Nothing in the functions under test is affected.
    fn verdict<T>(r: PmtreeResult<T>) -> Result<T, ()> {
        match r {
            Ok(v) => Ok(v),
            Err(e) => { core::mem::forget(e); Err(()) }
        }
    }

    fn open_ok() -> SledDB {
        SledDB(sled::Config::new().open().unwrap())
    }

    #[kani::proof]
    #[kani::unwind(10)]
    fn sled_put() {
        let mut db = open_ok();
        let key: DBKey = kani::any();
        let v: [u8; 2] = kani::any();
        let fail: bool = kani::any();
        unsafe { ctl::FAIL_WRITE = fail; }
        let r = verdict(db.put(key, v.to_vec()));
        if fail {
            assert!(r.is_err(), "put/failed-storage-write-is-reported");
            assert!(unsafe { ctl::WRITES } == 0, "put/failed-storage-write-stores-nothing");
        } else {
            assert!(r.is_ok(), "put/accepted-write-is-acknowledged");
            assert!(unsafe { ctl::WRITES } == 1, "put/acknowledged-write-reached-the-engine-once");
            let e = unsafe { ctl::LOG[0] };
            assert!(e.0 == key && e.1 == 2 && e.2[0] == v[0] && e.2[1] == v[1], "put/acknowledged-write-stores-exactly-key-and-value");
        }
    }

    #[kani::proof]
    #[kani::unwind(10)]
    fn sled_put_empty_value() {
        let mut db = open_ok();
        let key: DBKey = kani::any();
        let fail: bool = kani::any();
        unsafe { ctl::FAIL_WRITE = fail; }
        let r = verdict(db.put(key, Vec::new()));
        assert!(r.is_err() == fail, "put/failed-storage-write-is-reported");
        if !fail {
            let e = unsafe { ctl::LOG[0] };
            assert!(unsafe { ctl::WRITES } == 1 && e.0 == key && e.1 == 0, "put/acknowledged-write-stores-exactly-key-and-value");
        }
    }

    // std's RandomState::new() calls getrandom (a foreign function Kani cannot execute); build the state from fixed keys.
    fn fixed_state() -> std::collections::hash_map::RandomState {
        unsafe { std::mem::transmute::<(u64, u64), std::collections::hash_map::RandomState>((0x0123_4567_89ab_cdef, 0x0fed_cba9_8765_4321)) }
    }

    // put_batch: bounded (std HashMap is expensive for CBMC): an empty batch and a batch of one entry with a CONCRETE key
    // (a symbolic key makes the SipHash bucket index symbolic) and a symbolic value.
    #[kani::proof]
    #[kani::unwind(10)]
    fn sled_put_batch_0() {
        let mut db = open_ok();
        let fail: bool = kani::any();
        unsafe { ctl::FAIL_WRITE = fail; }
        let m: HashMap<DBKey, Value> = HashMap::with_hasher(fixed_state());
        let r = verdict(db.put_batch(m));
        assert!(r.is_err() == fail, "put_batch/failed-batch-write-is-reported");
        assert!(unsafe { ctl::WRITES } == 0, "put_batch/empty-batch-stores-nothing");
    }

    #[kani::proof]
    #[kani::unwind(10)]
    fn sled_put_batch_1() {
        let mut db = open_ok();
        let fail: bool = kani::any();
        let v: [u8; 2] = kani::any();
        unsafe { ctl::FAIL_WRITE = fail; }
        let key: DBKey = [1, 2, 3, 4, 5, 6, 7, 8];
        let mut m: HashMap<DBKey, Value> = HashMap::with_hasher(fixed_state());
        m.insert(key, v.to_vec());
        let r = verdict(db.put_batch(m));
        if fail {
            assert!(r.is_err(), "put_batch/failed-batch-write-is-reported");
            assert!(unsafe { ctl::WRITES } == 0, "put_batch/failed-batch-write-stores-nothing");
        } else {
            assert!(r.is_ok(), "put_batch/accepted-batch-is-acknowledged");
            let e = unsafe { ctl::LOG[0] };
            assert!(unsafe { ctl::WRITES } == 1 && e.0 == key && e.1 == 2 && e.2[0] == v[0] && e.2[1] == v[1],
                    "put_batch/acknowledged-batch-stores-exactly-its-entries");
        }
    }

    #[kani::proof]
    #[kani::unwind(10)]
    fn sled_close() {
        let mut db = open_ok();
        let fail: bool = kani::any();
        unsafe { ctl::FAIL_FLUSH = fail; }
        let r = verdict(db.close());
        if fail {
            assert!(r.is_err(), "close/failed-flush-is-reported");
        } else {
            assert!(r.is_ok(), "close/successful-flush-is-acknowledged");
            assert!(unsafe { ctl::FLUSHES } == 1, "close/acknowledged-close-flushed-the-engine");
        }
    }

    #[kani::proof]
    #[kani::unwind(10)]
    fn sled_get() {
        let db = open_ok();
        let key: DBKey = kani::any();
        let stored_key: DBKey = kani::any();
        let stored: Option<[u8; 2]> = kani::any();
        let fail: bool = kani::any();
        unsafe { ctl::FAIL_READ = fail; ctl::READ_KEY = stored_key; ctl::READ_VAL = stored; }
        let r = verdict(db.get(key));
        if fail {
            assert!(r.is_err(), "get/failed-storage-read-is-reported");
        } else {
            assert!(r.is_ok(), "get/successful-read-is-ok");
            let got = r.unwrap();
            match stored {
                Some(v) if key == stored_key => {
                    assert!(got.is_some(), "get/stored-value-is-found");
                    let g = got.unwrap();
                    assert!(g.len() == 2 && g[0] == v[0] && g[1] == v[1], "get/returns-exactly-the-stored-bytes");
                }
                _ => assert!(got.is_none(), "get/absent-key-reads-none"),
            }
        }
    }

    #[kani::proof]
    #[kani::unwind(10)]
    #[kani::stub(std::fmt::format, no_text)]
    fn sled_load() {
        let plan: u8 = kani::any();
        kani::assume(plan <= 2);
        let exists: bool = kani::any();
        unsafe { ctl::OPEN_PLAN[0] = plan; }
        let cfg = if exists { sled::Config::kani_existing(2, 1) } else { sled::Config::new() };
        let r = verdict(SledDB::load(cfg));
        if plan != 0 {
            assert!(r.is_err(), "load/failed-open-is-reported");
        } else if !exists {
            // a location without a database must not count as a loaded tree (PmTree::new then creates one)
            assert!(r.is_err(), "load/fresh-location-is-not-a-loaded-database");
        } else {
            assert!(r.is_ok(), "load/existing-database-is-loaded");
        }
        assert!(unsafe { ctl::OPENS } == 1, "load/opens-the-engine-once");
    }

    // SledDB::new -> new_with_tries: retries while the engine reports a lock conflict ("WouldBlock"), at most 10 attempts;
    // any other failure is reported at once; never acknowledges without an open database.
    // Case split over the number K of leading lock conflicts (one harness per K = 0..=10, everything after them symbolic):
    // a fully symbolic 12-entry plan did not finish in 15 min (ten nested `to_string` + `contains`).
    fn sled_new_case(k: usize) {
        let mut plan = [0u8; 12];
        let mut i = 0;
        while i < k { plan[i] = 1; i += 1; }
        if k < 12 {
            let last: u8 = kani::any();
            kani::assume(last == 0 || last == 2);
            plan[k] = last;
        }
        unsafe { ctl::OPEN_PLAN = plan; }
        let r = verdict(<SledDB as Database>::new(sled::Config::new()));
        if k < 10 && plan[k] == 0 {
            assert!(r.is_ok(), "new/open-succeeding-within-ten-tries-is-acknowledged");
            assert!(unsafe { ctl::OPENS } == k + 1, "new/stops-at-the-first-successful-open");
        } else {
            assert!(r.is_err(), "new/failed-open-is-reported");
            assert!(unsafe { ctl::OPENS } <= 10, "new/gives-up-after-ten-tries");
            if k < 10 { assert!(unsafe { ctl::OPENS } == k + 1, "new/other-error-is-reported-at-once"); }
        }
    }
    // NOT REGISTERED: `sled_new_case(0)` alone ran 28 min and then exhausted CBMC's memory (the guard `e.to_string().contains(..)`
    // does not fold, so every level of the retry recursion is explored with the whole fmt machinery).  Kept for a stronger back end.
    #[allow(dead_code)]
    fn keep() { let _ = sled_new_case; }
}
