// The two modules are generated on every run by tools/gen_ffi_glue.py (see Cargo.toml).
#![allow(clippy::all)]
pub mod ffi;
pub mod public;
