
// ---------------------------------------------------------------------------------------------------------------
// Kani second opinion for rln/src/circuit/iden3calc.rs (property C20: "named input vectors placed at their declared
// offsets": the inputs buffer must reach the largest Input index of the graph's leading input block, position 0 holds 1).
// Appended to the REAL file: `get_inputs_size` / `get_inputs_buffer` are the compiled originals, so the check does not
// depend on how their bodies are written (the Verus unit graph_eval loses its anchors when a loop becomes an iterator chain).
// Bounded: graphs of at most 4 nodes (every node kind that matters: Input / constant / unary / binary, symbolic indices).
// ---------------------------------------------------------------------------------------------------------------
#[cfg(kani)]
mod verif_kani {
    use super::*;
    use graph::{Operation, UnoOperation};

    fn any_node() -> Node {
        let k: u8 = kani::any();
        kani::assume(k < 4);
        match k {
            0 => {
                let i: usize = kani::any();
                kani::assume(i < usize::MAX);   // Input(usize::MAX): `max_index + 1` overflows; the storage format cannot express it (u32 indices)
                Node::Input(i)
            }
            1 => Node::Constant(U256::from_limbs([kani::any(), 0, 0, 0])),
            2 => Node::UnoOp(UnoOperation::Neg, kani::any()),
            _ => Node::Op(Operation::Add, kani::any(), kani::any()),
        }
    }

    // reference, written from the statement: s = first Input node, e = first non-Input node after s;
    // size = 1 + the largest index among nodes[s..e]; a graph without inputs still has position 0 (the constant 1)
    fn ref_size(nodes: &[Node]) -> usize {
        let n = nodes.len();
        let mut s = 0;
        while s < n && !matches!(nodes[s], Node::Input(_)) { s += 1; }
        let mut e = s;
        while e < n && matches!(nodes[e], Node::Input(_)) { e += 1; }
        let mut best = 0usize;
        let mut k = s;
        while k < e {
            if let Node::Input(i) = nodes[k] { if i > best { best = i; } }
            k += 1;
        }
        best + 1
    }

    #[kani::proof]
    #[kani::unwind(6)]
    fn inputs_size_upto4() {
        let arr = [any_node(), any_node(), any_node(), any_node()];
        let n: usize = kani::any();
        kani::assume(n <= 4);
        let got = get_inputs_size(&arr[..n]);
        assert!(got == ref_size(&arr[..n]), "get_inputs_size/size-is-largest-leading-input-index-plus-one");
        assert!(got >= 1, "get_inputs_size/buffer-has-position-zero");
    }

    fn limbs_are(x: &U256, l0: u64) -> bool { let l = x.as_limbs(); l[0] == l0 && l[1] == 0 && l[2] == 0 && l[3] == 0 }
    // sizes are concrete (a symbolic allocation size exhausts CBMC's memory)
    fn buffer_case(n: usize) {
        let b = get_inputs_buffer(n);
        assert!(b.len() == n, "get_inputs_buffer/has-the-requested-size");
        // limb-wise comparison: `==` on U256 / [u64; 4] is a 32-byte memcmp (needs an unwinding bound of 33)
        assert!(limbs_are(&b[0], 1), "get_inputs_buffer/position-zero-holds-one");
        let mut k = 1;
        while k < n {
            assert!(limbs_are(&b[k], 0), "get_inputs_buffer/other-positions-are-zero");
            k += 1;
        }
    }

    #[kani::proof]
    #[kani::unwind(7)]
    fn inputs_buffer_1_2_5() {
        buffer_case(1);
        buffer_case(2);
        buffer_case(5);
    }

    // populate_inputs (HashMap<String, Vec<U256>>) was tried with a fixed-state std HashMap, one concrete name, symbolic offset /
    // length / values: CBMC did not finish in 25 min (String keys through SipHash + hashbrown probing).  It stays Verus-only.
}
