// Appended to rln/src/utils.rs of a scratch copy of /repo (never committed there).
// Checks, on the REAL compiled functions, the contracts that the Verus unit `codecs` has to assume
// (bodies Verus cannot process): normalize_usize, fr_byte_size's associated constant, bytes_le_to_vec_usize,
// and checks no-panic on arbitrary bytes for the decoders that do not involve field arithmetic.
#[cfg(kani)]
mod verif_kani {
    use super::*;

    // COMPLETE: no loop, no input.  The Verus model `impl PrimeField for Fr { const MODULUS_BIT_SIZE = 254 }`
    // and the contract `fr_byte_size() == 32`.
    #[kani::proof]
    fn fr_byte_size_is_32() {
        assert!(<Fr as PrimeField>::MODULUS_BIT_SIZE == 254, "fr_byte_size/modulus-bit-size-is-254");
        assert!(fr_byte_size() == 32, "fr_byte_size/fr-width-is-32-bytes");
    }

    // COMPLETE: loop-free, every usize.  normalize_usize(x) == le_bytes(x, 8): byte i is (x / 256^i) mod 256.
    #[kani::proof]
    fn normalize_usize_is_le64() {
        let x: usize = kani::any();
        let r = normalize_usize(x);
        let x = x as u64;
        assert!(r[0] == (x & 0xff) as u8, "normalize_usize/usize-is-8-byte-le");
        assert!(r[1] == ((x >> 8) & 0xff) as u8, "normalize_usize/usize-is-8-byte-le");
        assert!(r[2] == ((x >> 16) & 0xff) as u8, "normalize_usize/usize-is-8-byte-le");
        assert!(r[3] == ((x >> 24) & 0xff) as u8, "normalize_usize/usize-is-8-byte-le");
        assert!(r[4] == ((x >> 32) & 0xff) as u8, "normalize_usize/usize-is-8-byte-le");
        assert!(r[5] == ((x >> 40) & 0xff) as u8, "normalize_usize/usize-is-8-byte-le");
        assert!(r[6] == ((x >> 48) & 0xff) as u8, "normalize_usize/usize-is-8-byte-le");
        assert!(r[7] == ((x >> 56) & 0xff) as u8, "normalize_usize/usize-is-8-byte-le");
    }

    const MAXB: usize = 27; // count<8> + two whole elements + a 3-byte tail

    fn le64_at(b: &[u8], off: usize) -> u64 {
        (b[off] as u64) | (b[off + 1] as u64) << 8 | (b[off + 2] as u64) << 16 | (b[off + 3] as u64) << 24
            | (b[off + 4] as u64) << 32 | (b[off + 5] as u64) << 40 | (b[off + 6] as u64) << 48 | (b[off + 7] as u64) << 56
    }

    // BOUNDED (input <= 27 bytes): the contract of bytes_le_to_vec_usize assumed by Verus: Ok exactly for a count field
    // followed by whole 8-byte groups; then one element per group, each the LE value of its group (none for count 0).
    #[kani::proof]
    #[kani::unwind(6)]
    fn vec_usize_decoder_contract() {
        let buf: [u8; MAXB] = kani::any();
        let n: usize = kani::any();
        kani::assume(n <= MAXB);
        let input = &buf[..n];
        let r = bytes_le_to_vec_usize(input);
        assert!(r.is_ok() == (n >= 8 && (n - 8) % 8 == 0), "bytes_le_to_vec_usize/vec-usize-decoder-accepts-iff-whole-groups");
        if let Ok(out) = r {
            let count = le64_at(input, 0);
            if count == 0 {
                assert!(out.is_empty(), "bytes_le_to_vec_usize/vec-usize-decoder-zero-count-is-empty");
            } else {
                assert!(out.len() == (n - 8) / 8, "bytes_le_to_vec_usize/vec-usize-decoder-one-element-per-group");
                let mut i = 0;
                while i < out.len() {
                    assert!(out[i] as u64 == le64_at(input, 8 + 8 * i), "bytes_le_to_vec_usize/vec-usize-decoder-layout");
                    i += 1;
                }
            }
        }
    }

    // BOUNDED (input <= 27 bytes), C13 no-panic on ANY bytes (failed before fix a023a1b: input shorter than 8 bytes;
    // non-zero count with a tail that is not a whole 8-byte group).
    #[kani::proof]
    #[kani::unwind(6)]
    fn vec_usize_decoder_nopanic() {
        let buf: [u8; MAXB] = kani::any();
        let n: usize = kani::any();
        kani::assume(n <= MAXB);
        let _ = bytes_le_to_vec_usize(&buf[..n]);
    }

    // BOUNDED (input <= 20 bytes), C13 no-panic on ANY bytes for the byte-vector decoder (failed before fix a023a1b:
    // short input, declared length beyond the input, 8 + len overflow).
    #[kani::proof]
    #[kani::unwind(22)]
    fn vec_u8_decoder_nopanic() {
        let buf: [u8; 20] = kani::any();
        let n: usize = kani::any();
        kani::assume(n <= 20);
        let _ = bytes_le_to_vec_u8(&buf[..n]);
    }
}
