// Appended to utils/src/merkle_tree/optimal_merkle_tree.rs of a scratch copy of /repo.
// Checks on the REAL compiled functions the contracts that the Verus unit `optimal_tree` assumes for the
// iterator-bodied functions that do not touch the HashMap: OptimalMerkleProof::{leaf_index, get_path_elements,
// get_path_index} and OptimalMerkleTree::get_empty_leaves_indices. Bounded in path length / capacity.
#[cfg(kani)]
mod verif_kani {
    use super::*;

    #[derive(Clone, Copy, PartialEq, Eq, Debug, Default)]
    pub struct TFr(pub u8);
    impl std::fmt::Display for TFr {
        fn fmt(&self, _f: &mut std::fmt::Formatter<'_>) -> std::fmt::Result { Ok(()) }
    }
    impl FromStr for TFr {
        type Err = ();
        fn from_str(_s: &str) -> std::result::Result<Self, ()> { Err(()) }
    }
    #[derive(Clone, Copy, PartialEq, Eq, Debug)]
    pub struct TH;
    impl Hasher for TH {
        type Fr = TFr;
        fn default_leaf() -> TFr { TFr(0) }
        fn hash(i: &[TFr]) -> TFr {
            TFr(i[0].0.wrapping_mul(31).wrapping_add(i[1].0.wrapping_mul(17)).wrapping_add(i[0].0 & i[1].0).wrapping_add(7))
        }
    }

    fn proof_accessors(maxlen: usize) {
        let len: usize = kani::any();
        kani::assume(len <= maxlen);
        let mut v: Vec<(TFr, u8)> = Vec::new();
        let mut k = 0;
        while k < len {
            let bit: u8 = kani::any();
            kani::assume(bit <= 1);
            v.push((TFr(kani::any()), bit));
            k += 1;
        }
        let p = OptimalMerkleProof::<TH>(v);
        let leaf = TFr(kani::any());
        let elems = p.get_path_elements();
        let bits = p.get_path_index();
        assert!(p.length() == len, "OptimalMerkleProof/length");
        assert!(elems.len() == len && bits.len() == len, "OptimalMerkleProof/accessor-lengths");
        let mut acc = leaf;
        let mut idx: usize = 0;
        let mut k = 0;
        while k < len {
            assert!(elems[k] == p.0[k].0, "get_path_elements/is-sibling-view");
            assert!(bits[k] == p.0[k].1, "get_path_index/is-direction-view");
            acc = if p.0[k].1 == 0 { TH::hash(&[acc, p.0[k].0]) } else { TH::hash(&[p.0[k].0, acc]) };
            idx |= (p.0[k].1 as usize) << k;
            k += 1;
        }
        assert!(p.compute_root_from(&leaf) == acc, "compute_root_from/is-fold_path");
        assert!(p.leaf_index() == idx, "leaf_index/decodes-lsb-first");
    }
    #[kani::proof]
    #[kani::unwind(5)]
    fn optimal_proof_accessors_len3() { proof_accessors(3); }
    #[kani::proof]
    #[kani::unwind(7)]
    fn optimal_proof_accessors_len5() { proof_accessors(5); }

    // std's RandomState::new() calls getrandom (a foreign function Kani cannot execute); build the state from fixed keys.
    // The map is never touched by the function under test.
    fn fixed_state() -> std::collections::hash_map::RandomState {
        unsafe { std::mem::transmute::<(u64, u64), std::collections::hash_map::RandomState>((0x0123_4567_89ab_cdef, 0x0fed_cba9_8765_4321)) }
    }
    // OptimalMerkleTree::get_empty_leaves_indices only reads the flags and the mark; the node map stays empty
    fn empty_indices_contract(d: usize) {
        let cap = 1usize << d;
        let mut flags = vec![0u8; cap];
        let mut k = 0;
        while k < cap { flags[k] = kani::any(); k += 1; }
        let next_index: usize = kani::any();
        kani::assume(next_index <= cap);
        let t = OptimalMerkleTree::<TH> { depth: d, cached_nodes: Vec::new(), nodes: HashMap::with_hasher(fixed_state()),
            cached_leaves_indices: flags, next_index, metadata: Vec::new() };
        let r = t.get_empty_leaves_indices();
        let mut expect = [0usize; 8];
        let mut n = 0;
        let mut k = 0;
        while k < cap {
            if k < t.next_index && t.cached_leaves_indices[k] == 0 { expect[n] = k; n += 1; }
            k += 1;
        }
        assert!(r.len() == n, "get_empty_leaves_indices/exactly-unset-below-mark-ascending");
        let mut k = 0;
        while k < cap {
            if k < n { assert!(r[k] == expect[k], "get_empty_leaves_indices/exactly-unset-below-mark-ascending"); }
            k += 1;
        }
    }
    #[kani::proof]
    #[kani::unwind(10)]
    fn optimal_empty_indices_d2() { empty_indices_contract(2); }
    #[kani::proof]
    #[kani::unwind(18)]
    fn optimal_empty_indices_d3() { empty_indices_contract(3); }


    // leaf_index over long paths (depths up to 12): only the direction bits matter, so the elements are fixed
    #[kani::proof]
    #[kani::unwind(14)]
    fn optimal_leaf_index_len12() {
        let len: usize = kani::any();
        kani::assume(len <= 12);
        let mut v: Vec<(TFr, u8)> = Vec::new();
        let mut idx: usize = 0;
        let mut k = 0;
        while k < len {
            let bit: u8 = kani::any();
            kani::assume(bit <= 1);
            v.push((TFr(0), bit));
            idx |= (bit as usize) << k;
            k += 1;
        }
        let p = OptimalMerkleProof::<TH>(v);
        assert!(p.leaf_index() == idx, "leaf_index/decodes-lsb-first");
    }

}
