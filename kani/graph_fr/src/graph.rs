// The operator functions of rln/src/circuit/iden3calc/graph.rs (verbatim, generated) + the C19 harnesses.
// Only the `use` lines differ from the original file: `Fr` is the canonical-integer model of lib.rs,
// `BigInt` / `BigInteger` are the real ark-ff items, `U256` / `uint!` the real ruint items.
use ark_ff::{BigInt, BigInteger};
use ruint::{aliases::U256, uint};
use std::{
    cmp::Ordering,
    ops::{BitAnd, BitOr, BitXor, Shl, Shr},
};

use crate::Fr;

include!("extracted.rs");

// Specifications come from the statement of C19, written over plain `[u64; 4]` little-endian integers:
//   shr: bit i of the result is bit i+n of a (0 beyond bit 253, 0 for n >= 254);
//   shl: ((a << n) & (2^254 - 1)) reduced mod p, 0 for n >= 254;
//   band / bor / bxor: limb-wise, masked to 254 bits, reduced once mod p;
//   comparisons on the signed representation around (p-1)/2; idiv / mod give 0 for a zero divisor;
//   every result is canonical (< p); nothing panics; eval and eval_fr agree wherever both are defined.
// Operands: four symbolic limbs constrained only by `< p`.  All loops are bounded by the operand width
// (4 limbs, 32 bytes, 3 limb moves), unwinding assertions are on: SUCCESSFUL = complete proof of the clause
// for the extracted text under the Fr model.  Obligations are `kani::assert(cond, "<function>/<clause>")`.  `which` selects one clause per path so that a failing clause
// (or a panic inside the function) never hides a sibling clause.
#[cfg(kani)]
mod verif_kani {
    use super::*;

    type L = [u64; 4];
    const P: L = crate::P_LIMBS;
    const HALF: L = [0xa1f0fac9f8000000, 0x9419f4243cdcb848, 0xdc2822db40c0ac2e, 0x183227397098d014]; // (p-1)/2
    const ZERO: L = [0, 0, 0, 0];
    const ONE: L = [1, 0, 0, 0];
    const TOP254: u64 = 0x3fff_ffff_ffff_ffff;

    fn eq4(a: &L, b: &L) -> bool { a[0] == b[0] && a[1] == b[1] && a[2] == b[2] && a[3] == b[3] }
    fn lt4(a: &L, b: &L) -> bool {
        if a[3] != b[3] { return a[3] < b[3]; }
        if a[2] != b[2] { return a[2] < b[2]; }
        if a[1] != b[1] { return a[1] < b[1]; }
        a[0] < b[0]
    }
    fn add4(a: &L, b: &L) -> (L, bool) {
        let mut r = [0u64; 4];
        let mut c: u128 = 0;
        let mut i = 0;
        while i < 4 {
            let s = a[i] as u128 + b[i] as u128 + c;
            r[i] = s as u64;
            c = s >> 64;
            i += 1;
        }
        (r, c != 0)
    }
    fn sub4(a: &L, b: &L) -> (L, bool) {
        let mut r = [0u64; 4];
        let mut bw = false;
        let mut i = 0;
        while i < 4 {
            let (d1, b1) = a[i].overflowing_sub(b[i]);
            let (d2, b2) = d1.overflowing_sub(bw as u64);
            r[i] = d2;
            bw = b1 || b2;
            i += 1;
        }
        (r, bw)
    }
    fn red1(t: &L) -> L { if lt4(t, &P) { *t } else { sub4(t, &P).0 } } // t mod p for t < 2p (2^254 < 2p)
    fn addmod(a: &L, b: &L) -> L { red1(&add4(a, b).0) }
    fn submod(a: &L, b: &L) -> L { if lt4(a, b) { sub4(&add4(a, &P).0, b).0 } else { sub4(a, b).0 } }
    fn bit(a: &L, i: usize) -> bool { i < 256 && (a[i / 64] >> (i % 64)) & 1 == 1 }
    fn key(x: &L) -> L { if lt4(&HALF, x) { sub4(&sub4(x, &HALF).0, &ONE).0 } else { add4(x, &HALF).0 } }
    fn small(n: &L) -> bool { n[1] == 0 && n[2] == 0 && n[3] == 0 && n[0] < 254 }
    fn lt256(n: &L) -> bool { n[1] == 0 && n[2] == 0 && n[3] == 0 && n[0] < 256 }
    // (a << n) mod 2^256, n < 256 -- reference, checked bit by bit in spec_shift_refs
    fn shl256(a: &L, n: usize) -> L {
        let q = n / 64;
        let s = (n % 64) as u32;
        let mut r = [0u64; 4];
        let mut i = 0;
        while i < 4 {
            if i >= q {
                let lo = a[i - q] << s;
                let hi = if s > 0 && i >= q + 1 { a[i - q - 1] >> (64 - s) } else { 0 };
                r[i] = lo | hi;
            }
            i += 1;
        }
        r
    }
    fn shl254(a: &L, n: usize) -> L { let mut r = shl256(a, n); r[3] &= TOP254; r }
    fn bw(a: &L, b: &L, op: u8) -> L {
        let mut r = [0u64; 4];
        let mut i = 0;
        while i < 4 {
            r[i] = match op { 0 => a[i] & b[i], 1 => a[i] | b[i], _ => a[i] ^ b[i] };
            i += 1;
        }
        r[3] &= TOP254;
        r
    }
    fn shl_spec(a: &L, n: &L) -> L { if small(n) { red1(&shl254(a, n[0] as usize)) } else { ZERO } }

    fn any_p() -> L {
        let x: L = [kani::any(), kani::any(), kani::any(), kani::any()];
        kani::assume(lt4(&x, &P));
        x
    }
    fn fr(x: L) -> Fr { Fr(BigInt::new(x)) }
    fn l(x: Fr) -> L { x.0 .0 }
    fn b2l(b: bool) -> L { [b as u64, 0, 0, 0] }

    #[kani::proof]
    #[kani::unwind(6)]
    fn spec_shift_refs() {
        let a: L = [kani::any(), kani::any(), kani::any(), kani::any()];
        let n: usize = kani::any();
        let i: usize = kani::any();
        kani::assume(i < 256 && n < 256);
        kani::assert(bit(&shl256(&a, n), i) == (n <= i && bit(&a, i - n)), "spec_shl256/bit-i-is-bit-i-minus-n");
        kani::assert(bit(&shl254(&a, n), i) == (n <= i && i < 254 && bit(&a, i - n)), "spec_shl254/bit-i-is-bit-i-minus-n-below-254");
    }

    // ---- shr -----------------------------------------------------------------------------------------------
    #[kani::proof]
    #[kani::unwind(34)]
    fn shr_fr() {
        let a = any_p();
        let b = any_p();
        let r = l(shr(fr(a), fr(b)));
        let i: usize = kani::any();
        kani::assume(i < 256);
        let which: u8 = kani::any();
        if which == 0 { kani::assert(lt4(&r, &P), "shr/canonical"); }
        if which == 1 {
            let expect = small(&b) && i + (b[0] as usize) < 254 && bit(&a, i + b[0] as usize);
            kani::assert(bit(&r, i) == expect, "shr/bit-i-is-bit-i-plus-n-zero-from-254");
        }
    }

    // ---- shl -----------------------------------------------------------------------------------------------
    // every operand pair: the only obligation expected to fail is shl/no-panic (unwrap on a value >= p)
    #[kani::proof]
    #[kani::unwind(34)]
    fn shl_fr_total() {
        let a = any_p();
        let b = any_p();
        let r = l(shl(fr(a), fr(b)));
        let which: u8 = kani::any();
        if which == 0 { kani::assert(lt4(&r, &P), "shl/canonical"); }
        if which == 1 { kani::assert(eq4(&r, &shl_spec(&a, &b)), "shl/is-shift-masked-254-reduced-mod-p"); }
    }
    // sibling: whenever the 256-bit shifted value is already a canonical element the function is right
    // (this is the domain on which the current code does not crash)
    #[kani::proof]
    #[kani::unwind(34)]
    fn shl_fr_when_fits() {
        let a = any_p();
        let b = any_p();
        kani::assume(!small(&b) || lt4(&shl256(&a, b[0] as usize), &P));
        let r = l(shl(fr(a), fr(b)));
        kani::assert(lt4(&r, &P), "shl/canonical-when-shifted-value-below-p");
        kani::assert(eq4(&r, &shl_spec(&a, &b)), "shl/correct-when-shifted-value-below-p");
    }

    // ---- bit_and / bit_or / bit_xor ---------------------------------------------------------------------------
    #[kani::proof]
    #[kani::unwind(34)]
    fn bit_and_fr() {
        let a = any_p();
        let b = any_p();
        let r = l(bit_and(fr(a), fr(b)));
        let which: u8 = kani::any();
        if which == 0 { kani::assert(lt4(&r, &P), "bit_and/canonical"); }
        if which == 1 { kani::assert(eq4(&r, &red1(&bw(&a, &b, 0))), "bit_and/is-and-reduced-mod-p"); }
    }
    #[kani::proof]
    #[kani::unwind(34)]
    fn bit_or_fr_total() {
        let a = any_p();
        let b = any_p();
        let r = l(bit_or(fr(a), fr(b)));
        let which: u8 = kani::any();
        if which == 0 { kani::assert(lt4(&r, &P), "bit_or/canonical"); }
        if which == 1 { kani::assert(eq4(&r, &red1(&bw(&a, &b, 1))), "bit_or/is-or-reduced-mod-p"); }
    }
    #[kani::proof]
    #[kani::unwind(34)]
    fn bit_or_fr_except_p() {
        let a = any_p();
        let b = any_p();
        kani::assume(!eq4(&bw(&a, &b, 1), &P));
        let r = l(bit_or(fr(a), fr(b)));
        kani::assert(lt4(&r, &P), "bit_or/canonical-when-or-differs-from-p");
        kani::assert(eq4(&r, &red1(&bw(&a, &b, 1))), "bit_or/correct-when-or-differs-from-p");
    }
    #[kani::proof]
    #[kani::unwind(34)]
    fn bit_xor_fr_total() {
        let a = any_p();
        let b = any_p();
        let r = l(bit_xor(fr(a), fr(b)));
        let which: u8 = kani::any();
        if which == 0 { kani::assert(lt4(&r, &P), "bit_xor/canonical"); }
        if which == 1 { kani::assert(eq4(&r, &red1(&bw(&a, &b, 2))), "bit_xor/is-xor-reduced-mod-p"); }
    }
    #[kani::proof]
    #[kani::unwind(34)]
    fn bit_xor_fr_except_p() {
        let a = any_p();
        let b = any_p();
        kani::assume(!eq4(&bw(&a, &b, 2), &P));
        let r = l(bit_xor(fr(a), fr(b)));
        kani::assert(lt4(&r, &P), "bit_xor/canonical-when-xor-differs-from-p");
        kani::assert(eq4(&r, &red1(&bw(&a, &b, 2))), "bit_xor/correct-when-xor-differs-from-p");
    }

    // ---- UnoOperation::eval_fr(Neg), fr_to_u256 / u256_to_fr ----------------------------------------------------
    #[kani::proof]
    #[kani::unwind(34)]
    fn neg_fr() {
        let a = any_p();
        let r = l(UnoOperation::Neg.eval_fr(fr(a)));
        let which: u8 = kani::any();
        if which == 0 { kani::assert(lt4(&r, &P), "UnoOperation_eval_fr/neg-canonical"); }
        if which == 1 { kani::assert(eq4(&r, &submod(&ZERO, &a)), "UnoOperation_eval_fr/neg-is-zero-minus-a-mod-p"); }
        if which == 2 { kani::assert(eq4(&addmod(&a, &r), &ZERO), "UnoOperation_eval_fr/neg-is-additive-inverse"); }
    }
    #[kani::proof]
    #[kani::unwind(34)]
    fn fr_u256_roundtrip() {
        let a = any_p();
        let x = fr_to_u256(&fr(a));
        kani::assert(eq4(x.as_limbs(), &a), "fr_to_u256/is-canonical-integer");
        let back = l(u256_to_fr(&x));
        kani::assert(eq4(&back, &a), "u256_to_fr/inverse-of-fr_to_u256-on-canonical-values");
    }

    // ---- Operation::eval_fr against the statement ------------------------------------------------------------------
    #[kani::proof]
    #[kani::unwind(34)]
    fn eval_fr_cmp_logic() {
        let a = any_p();
        let b = any_p();
        let (ka, kb) = (key(&a), key(&b));
        let which: u8 = kani::any();
        if which == 0 { kani::assert(eq4(&l(Operation::Eq.eval_fr(fr(a), fr(b))), &b2l(eq4(&a, &b))), "Operation_eval_fr/eq"); }
        if which == 1 { kani::assert(eq4(&l(Operation::Neq.eval_fr(fr(a), fr(b))), &b2l(!eq4(&a, &b))), "Operation_eval_fr/neq"); }
        if which == 2 { kani::assert(eq4(&l(Operation::Lt.eval_fr(fr(a), fr(b))), &b2l(lt4(&ka, &kb))), "Operation_eval_fr/lt-signed"); }
        if which == 3 { kani::assert(eq4(&l(Operation::Gt.eval_fr(fr(a), fr(b))), &b2l(lt4(&kb, &ka))), "Operation_eval_fr/gt-signed"); }
        if which == 4 { kani::assert(eq4(&l(Operation::Leq.eval_fr(fr(a), fr(b))), &b2l(!lt4(&kb, &ka))), "Operation_eval_fr/leq-signed"); }
        if which == 5 { kani::assert(eq4(&l(Operation::Geq.eval_fr(fr(a), fr(b))), &b2l(!lt4(&ka, &kb))), "Operation_eval_fr/geq-signed"); }
        if which == 6 { kani::assert(eq4(&l(Operation::Land.eval_fr(fr(a), fr(b))), &b2l(!eq4(&a, &ZERO) && !eq4(&b, &ZERO))), "Operation_eval_fr/land"); }
        if which == 7 { kani::assert(eq4(&l(Operation::Lor.eval_fr(fr(a), fr(b))), &b2l(!eq4(&a, &ZERO) || !eq4(&b, &ZERO))), "Operation_eval_fr/lor"); }
    }
    #[kani::proof]
    #[kani::unwind(34)]
    fn eval_fr_add_sub_zero_divisor() {
        let a = any_p();
        let b = any_p();
        let which: u8 = kani::any();
        // Add / Sub: dispatch onto the field's + and - (modelled as addition / subtraction mod p)
        if which == 0 { kani::assert(eq4(&l(Operation::Add.eval_fr(fr(a), fr(b))), &addmod(&a, &b)), "Operation_eval_fr/add-is-sum-mod-p"); }
        if which == 1 { kani::assert(eq4(&l(Operation::Sub.eval_fr(fr(a), fr(b))), &submod(&a, &b)), "Operation_eval_fr/sub-is-difference-mod-p"); }
        if which == 2 { kani::assert(eq4(&l(Operation::Idiv.eval_fr(fr(a), fr(ZERO))), &ZERO), "Operation_eval_fr/idiv-by-zero-is-zero"); }
        if which == 3 { kani::assert(eq4(&l(Operation::Mod.eval_fr(fr(a), fr(ZERO))), &ZERO), "Operation_eval_fr/mod-by-zero-is-zero"); }
        if which == 4 { kani::assert(eq4(&l(Operation::Div.eval_fr(fr(a), fr(ZERO))), &ZERO), "Operation_eval_fr/div-by-zero-is-zero"); }
    }
    // Shl Shr Band Bor Bxor dispatch onto the helpers (on the helpers' no-panic domain)
    #[kani::proof]
    #[kani::unwind(34)]
    fn eval_fr_dispatch() {
        let a = any_p();
        let b = any_p();
        let which: u8 = kani::any();
        if which == 0 { kani::assert(Operation::Shr.eval_fr(fr(a), fr(b)) == shr(fr(a), fr(b)), "Operation_eval_fr/shr-is-shr"); }
        if which == 1 { kani::assert(Operation::Band.eval_fr(fr(a), fr(b)) == bit_and(fr(a), fr(b)), "Operation_eval_fr/band-is-bit_and"); }
        if which == 2 && (!small(&b) || lt4(&shl256(&a, b[0] as usize), &P)) {
            kani::assert(Operation::Shl.eval_fr(fr(a), fr(b)) == shl(fr(a), fr(b)), "Operation_eval_fr/shl-is-shl");
        }
        if which == 3 && !eq4(&bw(&a, &b, 1), &P) {
            kani::assert(Operation::Bor.eval_fr(fr(a), fr(b)) == bit_or(fr(a), fr(b)), "Operation_eval_fr/bor-is-bit_or");
        }
        if which == 4 && !eq4(&bw(&a, &b, 2), &P) {
            kani::assert(Operation::Bxor.eval_fr(fr(a), fr(b)) == bit_xor(fr(a), fr(b)), "Operation_eval_fr/bxor-is-bit_xor");
        }
    }
    #[kani::proof]
    #[kani::unwind(34)]
    fn tres_eval_fr() {
        let a = any_p();
        let b = any_p();
        let c = any_p();
        let r = l(TresOperation::TernCond.eval_fr(fr(a), fr(b), fr(c)));
        kani::assert(eq4(&r, &if !eq4(&a, &ZERO) { b } else { c }), "TresOperation_eval_fr/terncond-selects-b-iff-a-nonzero");
    }

    // ---- the Montgomery evaluator's unimplemented arms -------------------------------------------------------------
    // Operation::Pow and UnoOperation::Id are produced by the deserialiser (proto::DuoOp::Pow -> Operation::Pow,
    // proto::UnoOp::Id -> UnoOperation::Id in storage.rs) and evaluated by the integer evaluator; eval_fr must
    // not crash on them.
    #[kani::proof]
    #[kani::unwind(34)]
    fn pow_eval_fr_arm() {
        let a = any_p();
        let b = any_p();
        let r = l(Operation::Pow.eval_fr(fr(a), fr(b)));
        kani::assert(lt4(&r, &P), "Operation_eval_fr/pow-canonical");
        // modular exponentiation (statement: "modular arithmetic"): the facts every field has, in particular a^0 = 1 also for a = 0
        // (circom and the integer evaluator's pow_mod agree), and otherwise the trusted ark-ff power of EXACTLY these operands.
        // How the code gets there is left open: a shortcut that returns the right value without calling pow passes.
        if eq4(&b, &ZERO) { kani::assert(eq4(&r, &ONE), "Operation_eval_fr/pow-exponent-zero-gives-one"); }
        else if eq4(&a, &ZERO) { kani::assert(eq4(&r, &ZERO), "Operation_eval_fr/pow-of-zero-is-zero"); }
        else if eq4(&a, &ONE) { kani::assert(eq4(&r, &ONE), "Operation_eval_fr/pow-of-one-is-one"); }
        else if eq4(&b, &ONE) { kani::assert(eq4(&r, &a), "Operation_eval_fr/pow-exponent-one-is-identity"); }
        else {
            let lg = unsafe { crate::POW_LOG };
            if lg.calls == 1 {
                kani::assert(eq4(&lg.base, &a) && lg.exp_len == 4 && eq4(&lg.exp, &b) && eq4(&r, &lg.ret),
                             "Operation_eval_fr/pow-is-the-field-power-of-exactly-these-operands");
            }
        }
    }
    #[kani::proof]
    #[kani::unwind(34)]
    fn id_eval_fr_arm() {
        let a = any_p();
        let r = l(UnoOperation::Id.eval_fr(fr(a)));
        kani::assert(eq4(&r, &a), "UnoOperation_eval_fr/id-is-identity");
    }

    // ---- the two evaluators agree wherever both are defined ------------------------------------------------------------
    fn agree(op: Operation, a: &L, b: &L) -> bool {
        let x = fr_to_u256(&op.eval_fr(fr(*a), fr(*b)));
        let y = op.eval(fr_to_u256(&fr(*a)), fr_to_u256(&fr(*b)));
        eq4(x.as_limbs(), y.as_limbs())
    }
    #[kani::proof]
    #[kani::unwind(34)]
    fn agree_cmp_logic() {
        let a = any_p();
        let b = any_p();
        let which: u8 = kani::any();
        if which == 0 { kani::assert(agree(Operation::Eq, &a, &b), "evaluators/agree-eq"); }
        if which == 1 { kani::assert(agree(Operation::Neq, &a, &b), "evaluators/agree-neq"); }
        if which == 2 { kani::assert(agree(Operation::Lt, &a, &b), "evaluators/agree-lt"); }
        if which == 3 { kani::assert(agree(Operation::Gt, &a, &b), "evaluators/agree-gt"); }
        if which == 4 { kani::assert(agree(Operation::Leq, &a, &b), "evaluators/agree-leq"); }
        if which == 5 { kani::assert(agree(Operation::Geq, &a, &b), "evaluators/agree-geq"); }
        if which == 6 { kani::assert(agree(Operation::Land, &a, &b), "evaluators/agree-land"); }
        if which == 7 { kani::assert(agree(Operation::Lor, &a, &b), "evaluators/agree-lor"); }
    }
    // reaches ruint's add_mod (reduce_mod -> Knuth division): unwind 6 + `--unwindset memcmp.0:34` from units.json
    #[kani::proof]
    #[kani::unwind(6)]
    fn agree_add_sub() {
        let a = any_p();
        let b = any_p();
        if kani::any() {
            kani::assert(agree(Operation::Add, &a, &b), "evaluators/agree-add");
        } else {
            kani::assert(agree(Operation::Sub, &a, &b), "evaluators/agree-sub");
        }
    }
    #[kani::proof]
    #[kani::unwind(34)]
    fn agree_band_shr() {
        let a = any_p();
        let b = any_p();
        let which: u8 = kani::any();
        if which == 0 { kani::assert(agree(Operation::Band, &a, &b), "evaluators/agree-band"); }
        // eval's Shr is defined (debug_assert) for counts below 256 only
        if which == 1 && lt256(&b) { kani::assert(agree(Operation::Shr, &a, &b), "evaluators/agree-shr"); }
    }
    // Bor / Bxor: both are defined whenever a|b (a^b) differs from p
    #[kani::proof]
    #[kani::unwind(34)]
    fn agree_bor_bxor() {
        let a = any_p();
        let b = any_p();
        let which: u8 = kani::any();
        if which == 0 && !eq4(&bw(&a, &b, 1), &P) { kani::assert(agree(Operation::Bor, &a, &b), "evaluators/agree-bor"); }
        if which == 1 && !eq4(&bw(&a, &b, 2), &P) { kani::assert(agree(Operation::Bxor, &a, &b), "evaluators/agree-bxor"); }
        // siblings: below p nothing has to be reduced and the two agree
        if which == 2 && lt4(&bw(&a, &b, 1), &P) { kani::assert(agree(Operation::Bor, &a, &b), "evaluators/agree-bor-when-or-below-p"); }
        if which == 3 && lt4(&bw(&a, &b, 2), &P) { kani::assert(agree(Operation::Bxor, &a, &b), "evaluators/agree-bxor-when-xor-below-p"); }
    }
    // Shl: eval is defined for counts below 256, eval_fr where the shifted value is below p or the count >= 254
    #[kani::proof]
    #[kani::unwind(34)]
    fn agree_shl() {
        let a = any_p();
        let b = any_p();
        kani::assume(lt256(&b));
        let which: u8 = kani::any();
        if which == 0 && small(&b) && lt4(&shl256(&a, b[0] as usize), &P) { kani::assert(agree(Operation::Shl, &a, &b), "evaluators/agree-shl-count-below-254"); }
        if which == 1 && !small(&b) { kani::assert(agree(Operation::Shl, &a, &b), "evaluators/agree-shl-count-254-255"); }
    }
    #[kani::proof]
    #[kani::unwind(34)]
    fn agree_uno_tres() {
        let a = any_p();
        let b = any_p();
        let c = any_p();
        let which: u8 = kani::any();
        if which == 0 {
            let x = fr_to_u256(&UnoOperation::Neg.eval_fr(fr(a)));
            let y = UnoOperation::Neg.eval(fr_to_u256(&fr(a)));
            kani::assert(eq4(x.as_limbs(), y.as_limbs()), "evaluators/agree-neg");
        }
        if which == 1 {
            let x = fr_to_u256(&TresOperation::TernCond.eval_fr(fr(a), fr(b), fr(c)));
            let y = TresOperation::TernCond.eval(fr_to_u256(&fr(a)), fr_to_u256(&fr(b)), fr_to_u256(&fr(c)));
            kani::assert(eq4(x.as_limbs(), y.as_limbs()), "evaluators/agree-terncond");
        }
    }
    // Idiv / Mod with a non-zero divisor: both evaluators call the same ruint `/` and `%` on the same canonical
    // integers; proving anything about that Knuth division is beyond CBMC here (out of memory / time), so the
    // agreement and the `u256_to_fr(..)` no-panic of these two arms rest on ruint (trusted: q <= a < p, r < b < p).
}
