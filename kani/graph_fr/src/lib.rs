//! Harness crate of the Kani unit `graph_ops_fr` (C19): the operator functions of
//! rln/src/circuit/iden3calc/graph.rs, copied verbatim on every run (src/extracted.rs, see
//! tools/gen_graph_fr.py), compiled against the REAL `ark_ff::BigInt` / `ruint::U256` and the
//! canonical-integer model of `Fr` below.
//!
//! ASSUMED(model): `Fr` is the BN254 scalar field in ark-ff's `Fp<MontBackend<FrConfig, 4>, 4>`.  Kani
//! cannot execute its Montgomery conversions (`into_bigint` / `from_bigint` are 4x4-limb Montgomery
//! multiplications) and cannot stub them (generic trait methods: unresolved alias / ICE).  The model
//! states their documented contract on canonical integers:
//!   * a field element is an integer in [0, p); `into_bigint` returns it, `from_bigint(x)` is `None` iff
//!     `x >= p` and otherwise the element `x` (the two are mutually inverse on [0, p));
//!   * `MODULUS` = p, `MODULUS_BIT_SIZE` = 254, `zero()` = 0, `one()` = 1, `is_zero`, `From<u64>` /
//!     `From<u32>` (values below p map to themselves), `cmp` = integer order of the canonical values;
//!   * `+` and `-` are addition / subtraction modulo p;
//!   * `*` and `/` are NOT modelled (Operation::Mul / Div stay in the trusted base): reaching them panics,
//!     and no harness selects them;
//!   * `pow` (not called by the current code; a fix of the missing `Pow` arm of `eval_fr` would call it) is an
//!     uninterpreted function returning SOME canonical element.
#![allow(unused)]
use ark_ff::BigInt;
use std::cmp::Ordering;

#[derive(Clone, Copy, PartialEq, Eq, Debug)]
pub struct Fr(pub BigInt<4>);

#[derive(Clone, Copy)]
pub struct PowLog { pub calls: u32, pub base: [u64; 4], pub exp: [u64; 4], pub exp_len: usize, pub ret: [u64; 4] }
pub static mut POW_LOG: PowLog = PowLog { calls: 0, base: [0; 4], exp: [0; 4], exp_len: 0, ret: [0; 4] };
pub const P_LIMBS: [u64; 4] = [0x43e1f593f0000001, 0x2833e84879b97091, 0xb85045b68181585d, 0x30644e72e131a029];

fn lt_limbs(a: &[u64; 4], b: &[u64; 4]) -> bool {
    if a[3] != b[3] { return a[3] < b[3]; }
    if a[2] != b[2] { return a[2] < b[2]; }
    if a[1] != b[1] { return a[1] < b[1]; }
    a[0] < b[0]
}
fn add_limbs(a: &[u64; 4], b: &[u64; 4]) -> [u64; 4] {
    let mut r = [0u64; 4];
    let mut c: u128 = 0;
    let mut i = 0;
    while i < 4 {
        let s = a[i] as u128 + b[i] as u128 + c;
        r[i] = s as u64;
        c = s >> 64;
        i += 1;
    }
    r
}
fn sub_limbs(a: &[u64; 4], b: &[u64; 4]) -> [u64; 4] {
    let mut r = [0u64; 4];
    let mut bw = false;
    let mut i = 0;
    while i < 4 {
        let (d1, b1) = a[i].overflowing_sub(b[i]);
        let (d2, b2) = d1.overflowing_sub(bw as u64);
        r[i] = d2;
        bw = b1 || b2;
        i += 1;
    }
    r
}

impl Fr {
    pub const MODULUS: BigInt<4> = BigInt::new(P_LIMBS);
    pub const MODULUS_BIT_SIZE: u32 = 254;
    pub fn from_bigint(r: BigInt<4>) -> Option<Fr> { if lt_limbs(&r.0, &P_LIMBS) { Some(Fr(r)) } else { None } }
    pub fn into_bigint(self) -> BigInt<4> { self.0 }
    pub fn is_one(&self) -> bool { self.0 .0[0] == 1 && self.0 .0[1] == 0 && self.0 .0[2] == 0 && self.0 .0[3] == 0 }
    pub fn is_zero(&self) -> bool { self.0 .0[0] == 0 && self.0 .0[1] == 0 && self.0 .0[2] == 0 && self.0 .0[3] == 0 }
    pub fn zero() -> Fr { Fr(BigInt::new([0, 0, 0, 0])) }
    pub fn one() -> Fr { Fr(BigInt::new([1, 0, 0, 0])) }
    /// ark_ff::Field::pow (trusted base), PARTIALLY interpreted: the algebraic facts that hold in every field are built in
    /// (x^0 = 1 — also for x = 0, ark-ff and circom agree —, 0^e = 0 for e != 0, 1^e = 1, x^1 = x); for every other pair the result is
    /// some canonical field element, recorded together with the arguments in `POW_LOG` so that a harness can state
    /// "the result is the trusted power of exactly these operands" without fixing how the code reaches it.
    pub fn pow<S: AsRef<[u64]>>(&self, exp: S) -> Fr {
        let e = exp.as_ref();
        let mut el = [0u64; 4];
        let mut i = 0;
        while i < 4 { if i < e.len() { el[i] = e[i]; } i += 1; }
        let is = |x: &[u64; 4], v: u64| x[0] == v && x[1] == 0 && x[2] == 0 && x[3] == 0;
        if e.len() <= 4 {
            if is(&el, 0) { return Fr::one(); }
            if is(&self.0 .0, 0) { return Fr::zero(); }
            if is(&self.0 .0, 1) { return Fr::one(); }
            if is(&el, 1) { return *self; }
        }
        #[cfg(kani)]
        {
            let r: [u64; 4] = [kani::any(), kani::any(), kani::any(), kani::any()];
            kani::assume(lt_limbs(&r, &P_LIMBS));
            unsafe { POW_LOG = PowLog { calls: POW_LOG.calls + 1, base: self.0 .0, exp: el, exp_len: e.len(), ret: r }; }
            return Fr(BigInt::new(r));
        }
        #[cfg(not(kani))]
        panic!("Fr model: pow is not modelled")
    }
    pub fn cmp(&self, o: &Fr) -> Ordering {
        if lt_limbs(&self.0 .0, &o.0 .0) { Ordering::Less } else if lt_limbs(&o.0 .0, &self.0 .0) { Ordering::Greater } else { Ordering::Equal }
    }
}
impl From<u64> for Fr { fn from(v: u64) -> Fr { Fr(BigInt::new([v, 0, 0, 0])) } }
impl From<u32> for Fr { fn from(v: u32) -> Fr { Fr(BigInt::new([v as u64, 0, 0, 0])) } }
impl std::ops::Add for Fr {
    type Output = Fr;
    fn add(self, o: Fr) -> Fr {
        let s = add_limbs(&self.0 .0, &o.0 .0); // both < p: the sum is < 2p < 2^255
        Fr(BigInt::new(if lt_limbs(&s, &P_LIMBS) { s } else { sub_limbs(&s, &P_LIMBS) }))
    }
}
impl std::ops::Sub for Fr {
    type Output = Fr;
    fn sub(self, o: Fr) -> Fr {
        let (a, b) = (self.0 .0, o.0 .0);
        Fr(BigInt::new(if lt_limbs(&a, &b) { sub_limbs(&add_limbs(&a, &P_LIMBS), &b) } else { sub_limbs(&a, &b) }))
    }
}
impl std::ops::Mul for Fr {
    type Output = Fr;
    fn mul(self, _o: Fr) -> Fr { panic!("Fr model: field multiplication is not modelled (trusted base)") }
}
impl std::ops::Div for Fr {
    type Output = Fr;
    fn div(self, _o: Fr) -> Fr { panic!("Fr model: field division is not modelled (trusted base)") }
}

pub mod graph;
