// Appended to utils/src/poseidon/poseidon_hash.rs of a scratch copy of /repo.
// Checks on the REAL compiled functions the contracts that the Verus unit `poseidon` assumes for Poseidon::ark and
// Poseidon::sbox (for_each closures over iter_mut, which Verus cannot process), and re-checks mix_2, over a small
// 64-bit prime field defined with ark-ff's own Montgomery machinery. The reference values are computed with the same
// field operations, so what is checked is the STRUCTURE (which lane gets which constant / which S-box), not field arithmetic.
#[cfg(kani)]
mod verif_kani {
    use super::*;
    use ark_ff::fields::{Fp64, MontBackend, MontConfig};

    #[derive(MontConfig)]
    #[modulus = "2147483647"]
    #[generator = "7"]
    pub struct TConfig;
    pub type TF = Fp64<MontBackend<TConfig, 1>>;

    // fixed, pairwise distinct field values: the functions are generic in the field and cannot inspect values, so the
    // structure (which lane gets which operation) is what can differ; symbolic 64-bit Montgomery products are out of reach
    fn tf(k: u64) -> TF { TF::from(1000 + 17 * k) }
    // limb comparison (Fp's derived == goes through memcmp, which needs a byte-wise unwinding bound)
    fn same(a: TF, b: TF) -> bool { (a.0).0[0] == (b.0).0[0] }
    fn pow5(x: TF) -> TF { let x2 = x * x; let x4 = x2 * x2; x4 * x }

    #[kani::proof]
    #[kani::unwind(10)]
    fn ark_adds_round_constants() {
        let p = Poseidon::<TF> { round_params: Vec::new() };
        let it: usize = kani::any();
        kani::assume(it <= 2);
        let c = [tf(1), tf(2), tf(3), tf(4), tf(5)];
        let s0 = [tf(11), tf(12), tf(13)];
        let mut state = s0;
        p.ark(&mut state, &c, it);
        let mut k = 0;
        while k < 3 { assert!(same(state[k], s0[k] + c[it + k]), "ark/adds-constant-it-plus-lane"); k += 1; }
    }

    #[kani::proof]
    #[kani::unwind(10)]
    fn sbox_full_and_partial_rounds() {
        let p = Poseidon::<TF> { round_params: Vec::new() };
        let rf: usize = kani::any(); let rp: usize = kani::any(); let i: usize = kani::any();
        kani::assume(rf <= 8 && rp <= 8 && i < 16);
        let s0 = [tf(11), tf(12), tf(13)];
        let mut state = s0;
        p.sbox(rf, rp, &mut state, i);
        let full = i < rf / 2 || i >= rf / 2 + rp;
        let mut k = 0;
        while k < 3 {
            let expect = if full || k == 0 { pow5(s0[k]) } else { s0[k] };
            assert!(same(state[k], expect), "sbox/full-rounds-all-lanes-partial-rounds-lane-zero");
            k += 1;
        }
    }

    // Poseidon::hash against a directly written reference permutation, small parameters (second opinion for the Verus proof
    // that does not depend on how the body is written)
    fn reference(params: &RoundParameters<TF>, inp: &[TF]) -> TF {
        let t = params.t;
        let mut st = vec![TF::from(0u64); t];
        let mut k = 0;
        while k < inp.len() { st[k + 1] = inp[k]; k += 1; }
        let rounds = params.n_rounds_f + params.n_rounds_p;
        let mut r = 0;
        while r < rounds {
            let mut k = 0;
            while k < t { st[k] = st[k] + params.c[r * t + k]; k += 1; }
            let full = r < params.n_rounds_f / 2 || r >= params.n_rounds_f / 2 + params.n_rounds_p;
            let mut k = 0;
            while k < t { if full || k == 0 { st[k] = pow5(st[k]); } k += 1; }
            let mut nx = vec![TF::from(0u64); t];
            let mut i = 0;
            while i < t {
                let mut acc = TF::from(0u64);
                let mut j = 0;
                while j < t { acc = acc + params.m[i][j] * st[j]; j += 1; }
                nx[i] = acc;
                i += 1;
            }
            st = nx;
            r += 1;
        }
        st[0]
    }
    fn small_params(t: usize, rf: usize, rp: usize) -> RoundParameters<TF> {
        let mut c = Vec::new();
        let mut k = 0;
        while k < t * (rf + rp) { c.push(tf(20 + k as u64)); k += 1; }
        let mut m = Vec::new();
        let mut i = 0;
        while i < t {
            let mut row = Vec::new();
            let mut j = 0;
            while j < t { row.push(tf(100 + (i * t + j) as u64)); j += 1; }
            m.push(row);
            i += 1;
        }
        RoundParameters { t, n_rounds_f: rf, n_rounds_p: rp, skip_matrices: 0, c, m }
    }
    fn hash_case(n: usize) {
        let p = Poseidon::<TF> { round_params: vec![small_params(2, 2, 1), small_params(3, 2, 2)] };
        let inp = [tf(41), tf(42), tf(43)];
        let r = p.hash(&inp[..n]);
        if n == 0 || n == 3 {
            assert!(r.is_err(), "hash/err-exactly-for-empty-input-or-missing-parameters");
        } else {
            assert!(r.is_ok(), "hash/err-exactly-for-empty-input-or-missing-parameters");
            assert!(same(r.unwrap(), reference(&p.round_params[n - 1], &inp[..n])), "hash/is-reference-permutation");
        }
    }
    #[kani::proof]
    #[kani::unwind(14)]
    fn hash_reference_one_input() { hash_case(1); }
    #[kani::proof]
    #[kani::unwind(14)]
    fn hash_reference_two_inputs() { hash_case(2); }
    #[kani::proof]
    #[kani::unwind(14)]
    fn hash_rejects_empty_and_unsupported() { hash_case(0); hash_case(3); }
}
