// Appended to utils/src/merkle_tree/full_merkle_tree.rs of a scratch copy of /repo (never committed there).
// Checks, on the REAL compiled functions, the contracts that the Verus unit `full_tree` has to assume
// (bodies Verus cannot process: for_each closure capturing &mut self, iterator chains, fold).
// Every harness is an inductive step: it starts from an ARBITRARY well-formed tree of the stated depth
// (symbolic leaves, flags, next_index), so a pass covers every history leading to such a state.
// The depth / length bound makes these BOUNDED checks; they are reported as bounded, never as proved.
#[cfg(kani)]
mod verif_kani {
    use super::*;

    #[derive(Clone, Copy, PartialEq, Eq, Debug, Default)]
    pub struct TFr(pub u8);
    impl std::fmt::Display for TFr {
        fn fmt(&self, _f: &mut std::fmt::Formatter<'_>) -> std::fmt::Result { Ok(()) }
    }
    impl FromStr for TFr {
        type Err = ();
        fn from_str(_s: &str) -> std::result::Result<Self, ()> { Err(()) }
    }
    #[derive(Clone, Copy, PartialEq, Eq, Debug)]
    pub struct TH;
    impl Hasher for TH {
        type Fr = TFr;
        fn default_leaf() -> TFr { TFr(0) }
        // non-linear toy mix; the contracts compare against the ideal tree built with the same function
        fn hash(i: &[TFr]) -> TFr {
            TFr(i[0].0.wrapping_mul(31).wrapping_add(i[1].0.wrapping_mul(17)).wrapping_add(i[0].0 & i[1].0).wrapping_add(7))
        }
    }

    const MAXCAP: usize = 8;

    // an arbitrary well-formed FullMerkleTree of depth d: symbolic leaves, internal nodes hashed bottom-up
    // (every wf tree is of this form), symbolic flags and high-water mark
    fn any_wf_tree(d: usize) -> (FullMerkleTree<TH>, [TFr; MAXCAP]) {
        let cap = 1usize << d;
        let mut leaves = [TFr(0); MAXCAP];
        let mut nodes = vec![TFr(0); 2 * cap - 1];
        let next_index: usize = kani::any();
        kani::assume(next_index <= cap);
        let mut k = 0;
        while k < cap {
            // wf: positions at or above the high-water mark hold the default leaf
            leaves[k] = if k < next_index { TFr(kani::any()) } else { TFr(0) };
            nodes[cap - 1 + k] = leaves[k];
            k += 1;
        }
        let mut i = cap - 1;
        while i > 0 {
            i -= 1;
            nodes[i] = TH::hash(&[nodes[2 * i + 1], nodes[2 * i + 2]]);
        }
        let mut flags = vec![0u8; cap];
        let mut k = 0;
        while k < cap {
            // wf: positions at or above the high-water mark are not marked written
            flags[k] = if k < next_index { kani::any() } else { 0 };
            k += 1;
        }
        let t = FullMerkleTree::<TH> {
            depth: d,
            cached_nodes: vec![TFr(kani::any()); d + 1],
            nodes,
            cached_leaves_indices: flags,
            next_index,
            metadata: Vec::new(),
        };
        (t, leaves)
    }

    fn ideal_nodes(d: usize, leaves: &[TFr; MAXCAP]) -> Vec<TFr> {
        let cap = 1usize << d;
        let mut nodes = vec![TFr(0); 2 * cap - 1];
        let mut k = 0;
        while k < cap {
            nodes[cap - 1 + k] = leaves[k];
            k += 1;
        }
        let mut i = cap - 1;
        while i > 0 {
            i -= 1;
            nodes[i] = TH::hash(&[nodes[2 * i + 1], nodes[2 * i + 2]]);
        }
        nodes
    }

    // contract of FullMerkleTree::set_range as assumed by the Verus unit (specs/full_tree.rs.in)
    fn set_range_step(d: usize) {
        let cap = 1usize << d;
        let (mut t, leaves) = any_wf_tree(d);
        let old = t.clone();
        let start: usize = kani::any();
        let n: usize = kani::any();
        kani::assume(n <= cap + 1);
        let mut vals: Vec<TFr> = Vec::new();
        let mut k = 0;
        while k < n {
            vals.push(TFr(kani::any()));
            k += 1;
        }
        let r = t.set_range(start, vals.clone().into_iter());
        // mathematical start + n > cap  (no wrap-around: compare without adding)
        let out_of_range = start > cap || n > cap - start;
        if out_of_range {
            assert!(r.is_err(), "set_range/rejects-out-of-range");
            assert!(t == old, "set_range/rejected-changes-nothing");
        } else {
            assert!(r.is_ok(), "set_range/accepts-in-range");
            let mut l = leaves;
            let mut k = 0;
            while k < n {
                l[start + k] = vals[k];
                k += 1;
            }
            let ideal = ideal_nodes(d, &l);
            assert!(t.nodes == ideal, "set_range/nodes-equal-ideal-tree");
            let mut k = 0;
            while k < cap {
                let expect = if start <= k && k < start + n { 1u8 } else { old.cached_leaves_indices[k] };
                assert!(t.cached_leaves_indices[k] == expect, "set_range/flags-written-range");
                k += 1;
            }
            let exp_next = if n > 0 { std::cmp::max(old.next_index, start + n) } else { old.next_index };
            assert!(t.next_index == exp_next, "set_range/high-water-mark");
            assert!(t.depth == d && t.metadata == old.metadata, "set_range/frame");
        }
    }

    #[kani::proof]
    #[kani::unwind(6)]
    fn set_range_step_d1() { set_range_step(1); }

    #[kani::proof]
    #[kani::unwind(10)]
    fn set_range_step_d2() { set_range_step(2); }

    #[kani::proof]
    #[kani::unwind(18)]
    fn set_range_step_d3() { set_range_step(3); }

    // FullMerkleTree::new: all-default ideal tree, no flags, mark 0
    fn new_contract(d: usize) {
        let init = TFr(kani::any());
        let t = FullMerkleTree::<TH>::new(d, init, FullMerkleConfig::default()).unwrap();
        let mut leaves = [TFr(0); MAXCAP];
        let cap = 1usize << d;
        let mut k = 0;
        while k < cap { leaves[k] = init; k += 1; }
        assert!(t.nodes == ideal_nodes(d, &leaves), "new/nodes-equal-ideal-default-tree");
        assert!(t.depth == d && t.next_index == 0, "new/mark-zero");
        assert!(t.cached_leaves_indices.len() == cap, "new/flags-len");
        let mut k = 0;
        while k < cap { assert!(t.cached_leaves_indices[k] == 0, "new/flags-zero"); k += 1; }
    }
    #[kani::proof]
    #[kani::unwind(6)]
    fn new_contract_d1() { new_contract(1); }
    #[kani::proof]
    #[kani::unwind(10)]
    fn new_contract_d2() { new_contract(2); }
    #[kani::proof]
    #[kani::unwind(18)]
    fn new_contract_d3() { new_contract(3); }

    // get_empty_leaves_indices == ascending { i < next_index | flags[i] == 0 }
    fn empty_indices_contract(d: usize) {
        // only flags and the mark are read by the function: nodes are left at a fixed value
        let cap = 1usize << d;
        let mut flags = vec![0u8; cap];
        let mut k = 0;
        while k < cap { flags[k] = kani::any(); k += 1; }
        let next_index: usize = kani::any();
        kani::assume(next_index <= cap);
        let t = FullMerkleTree::<TH> { depth: d, cached_nodes: Vec::new(), nodes: Vec::new(),
            cached_leaves_indices: flags, next_index, metadata: Vec::new() };
        let r = t.get_empty_leaves_indices();
        let mut expect = [0usize; MAXCAP];
        let mut n = 0;
        let mut k = 0;
        while k < cap {
            if k < t.next_index && t.cached_leaves_indices[k] == 0 { expect[n] = k; n += 1; }
            k += 1;
        }
        assert!(r.len() == n, "get_empty_leaves_indices/exactly-unset-below-mark-ascending");
        let mut k = 0;
        while k < cap {
            if k < n { assert!(r[k] == expect[k], "get_empty_leaves_indices/exactly-unset-below-mark-ascending"); }
            k += 1;
        }
    }
    #[kani::proof]
    #[kani::unwind(10)]
    fn empty_indices_d2() { empty_indices_contract(2); }
    #[kani::proof]
    #[kani::unwind(18)]
    fn empty_indices_d3() { empty_indices_contract(3); }

    // FullMerkleProof accessors (fold / map bodies) against the path view used by the Verus unit
    fn any_proof(len: usize) -> FullMerkleProof<TH> {
        let mut v = Vec::new();
        let mut k = 0;
        while k < len {
            let x = TFr(kani::any());
            if kani::any() { v.push(FullMerkleBranch::Left(x)); } else { v.push(FullMerkleBranch::Right(x)); }
            k += 1;
        }
        FullMerkleProof(v)
    }
    fn proof_accessors(maxlen: usize) {
        let len: usize = kani::any();
        kani::assume(len <= maxlen);
        let p = any_proof(len);
        let leaf = TFr(kani::any());
        // reference fold: bit 0 (Left) = current node is the left child
        let mut acc = leaf;
        let mut idx: usize = 0;
        let mut k = 0;
        let elems = p.get_path_elements();
        let bits = p.get_path_index();
        assert!(p.length() == len, "proof/length");
        assert!(elems.len() == len && bits.len() == len, "proof/accessor-lengths");
        while k < len {
            let (sib, bit) = match p.0[k] { FullMerkleBranch::Left(v) => (v, 0u8), FullMerkleBranch::Right(v) => (v, 1u8) };
            assert!(elems[k] == sib, "proof/get_path_elements-is-sibling-view");
            assert!(bits[k] == bit, "proof/get_path_index-is-direction-view");
            acc = if bit == 0 { TH::hash(&[acc, sib]) } else { TH::hash(&[sib, acc]) };
            idx |= (bit as usize) << k;
            k += 1;
        }
        assert!(p.compute_root_from(&leaf) == acc, "proof/compute_root_from-is-fold_path");
        assert!(p.leaf_index() == idx, "proof/leaf_index-decodes-lsb-first");
    }
    #[kani::proof]
    #[kani::unwind(5)]
    fn proof_accessors_len3() { proof_accessors(3); }
    #[kani::proof]
    #[kani::unwind(7)]
    fn proof_accessors_len5() { proof_accessors(5); }
}
