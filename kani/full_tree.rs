// Appended to utils/src/merkle_tree/full_merkle_tree.rs of a scratch copy of /repo (never committed there).
// Checks, on the REAL compiled functions, the contracts that the Verus unit `full_tree` has to assume
// (bodies Verus cannot process: for_each closure capturing &mut self, iterator chains, fold).
// Every harness is an inductive step: it starts from an ARBITRARY well-formed tree of the stated depth
// (symbolic leaves, flags, next_index), so a pass covers every history leading to such a state.
// The depth / length bound makes these BOUNDED checks; they are reported as bounded, never as proved.
#[cfg(kani)]
mod verif_kani {
    use super::*;

    #[derive(Clone, Copy, PartialEq, Eq, Debug, Default)]
    pub struct TFr(pub u8);
    impl std::fmt::Display for TFr {
        fn fmt(&self, _f: &mut std::fmt::Formatter<'_>) -> std::fmt::Result { Ok(()) }
    }
    impl FromStr for TFr {
        type Err = ();
        fn from_str(_s: &str) -> std::result::Result<Self, ()> { Err(()) }
    }
    #[derive(Clone, Copy, PartialEq, Eq, Debug)]
    pub struct TH;
    impl Hasher for TH {
        type Fr = TFr;
        fn default_leaf() -> TFr { TFr(0) }
        // non-linear toy mix; the contracts compare against the ideal tree built with the same function
        fn hash(i: &[TFr]) -> TFr {
            TFr(i[0].0.wrapping_mul(31).wrapping_add(i[1].0.wrapping_mul(17)).wrapping_add(i[0].0 & i[1].0).wrapping_add(7))
        }
    }

    const MAXCAP: usize = 8;

    // an arbitrary well-formed FullMerkleTree of depth d: symbolic leaves, internal nodes hashed bottom-up
    // (every wf tree is of this form), symbolic flags and high-water mark
    fn any_wf_tree(d: usize) -> (FullMerkleTree<TH>, [TFr; MAXCAP]) {
        let cap = 1usize << d;
        let mut leaves = [TFr(0); MAXCAP];
        let mut nodes = vec![TFr(0); 2 * cap - 1];
        let next_index: usize = kani::any();
        kani::assume(next_index <= cap);
        let mut k = 0;
        while k < cap {
            // wf: positions at or above the high-water mark hold the default leaf
            leaves[k] = if k < next_index { TFr(kani::any()) } else { TFr(0) };
            nodes[cap - 1 + k] = leaves[k];
            k += 1;
        }
        let mut i = cap - 1;
        while i > 0 {
            i -= 1;
            nodes[i] = TH::hash(&[nodes[2 * i + 1], nodes[2 * i + 2]]);
        }
        let mut flags = vec![0u8; cap];
        let mut k = 0;
        while k < cap {
            // wf: positions at or above the high-water mark are not marked written
            flags[k] = if k < next_index { kani::any() } else { 0 };
            k += 1;
        }
        let t = FullMerkleTree::<TH> {
            depth: d,
            cached_nodes: vec![TFr(kani::any()); d + 1],
            nodes,
            cached_leaves_indices: flags,
            next_index,
            metadata: Vec::new(),
        };
        (t, leaves)
    }

    fn ideal_nodes(d: usize, leaves: &[TFr; MAXCAP]) -> Vec<TFr> {
        let cap = 1usize << d;
        let mut nodes = vec![TFr(0); 2 * cap - 1];
        let mut k = 0;
        while k < cap {
            nodes[cap - 1 + k] = leaves[k];
            k += 1;
        }
        let mut i = cap - 1;
        while i > 0 {
            i -= 1;
            nodes[i] = TH::hash(&[nodes[2 * i + 1], nodes[2 * i + 2]]);
        }
        nodes
    }

    // contract of FullMerkleTree::set_range as assumed by the Verus unit (specs/full_tree.rs.in)
    fn set_range_step(d: usize) {
        let cap = 1usize << d;
        let (mut t, leaves) = any_wf_tree(d);
        let old = t.clone();
        let start: usize = kani::any();
        let n: usize = kani::any();
        kani::assume(n <= cap + 1);
        let mut vals: Vec<TFr> = Vec::new();
        let mut k = 0;
        while k < n {
            vals.push(TFr(kani::any()));
            k += 1;
        }
        let r = t.set_range(start, vals.clone().into_iter());
        // mathematical start + n > cap  (no wrap-around: compare without adding)
        let out_of_range = start > cap || n > cap - start;
        if out_of_range {
            assert!(r.is_err(), "set_range/rejects-out-of-range");
            assert!(t == old, "set_range/rejected-changes-nothing");
        } else {
            assert!(r.is_ok(), "set_range/accepts-in-range");
            let mut l = leaves;
            let mut k = 0;
            while k < n {
                l[start + k] = vals[k];
                k += 1;
            }
            let ideal = ideal_nodes(d, &l);
            assert!(t.nodes == ideal, "set_range/nodes-equal-ideal-tree");
            let mut k = 0;
            while k < cap {
                let expect = if start <= k && k < start + n { 1u8 } else { old.cached_leaves_indices[k] };
                assert!(t.cached_leaves_indices[k] == expect, "set_range/flags-written-range");
                k += 1;
            }
            let exp_next = if n > 0 { std::cmp::max(old.next_index, start + n) } else { old.next_index };
            assert!(t.next_index == exp_next, "set_range/high-water-mark");
            assert!(t.depth == d && t.metadata == old.metadata, "set_range/frame");
        }
    }

    #[kani::proof]
    #[kani::unwind(6)]
    fn set_range_step_d1() { set_range_step(1); }

    #[kani::proof]
    #[kani::unwind(10)]
    fn set_range_step_d2() { set_range_step(2); }

    #[kani::proof]
    #[kani::unwind(18)]
    fn set_range_step_d3() { set_range_step(3); }

    // FullMerkleTree::new: all-default ideal tree, no flags, mark 0
    fn new_contract(d: usize) {
        let init = TFr(kani::any());
        let t = FullMerkleTree::<TH>::new(d, init, FullMerkleConfig::default()).unwrap();
        let mut leaves = [TFr(0); MAXCAP];
        let cap = 1usize << d;
        let mut k = 0;
        while k < cap { leaves[k] = init; k += 1; }
        assert!(t.nodes == ideal_nodes(d, &leaves), "new/nodes-equal-ideal-default-tree");
        assert!(t.depth == d && t.next_index == 0, "new/mark-zero");
        assert!(t.cached_leaves_indices.len() == cap, "new/flags-len");
        let mut k = 0;
        while k < cap { assert!(t.cached_leaves_indices[k] == 0, "new/flags-zero"); k += 1; }
    }
    #[kani::proof]
    #[kani::unwind(6)]
    fn new_contract_d1() { new_contract(1); }
    #[kani::proof]
    #[kani::unwind(10)]
    fn new_contract_d2() { new_contract(2); }
    #[kani::proof]
    #[kani::unwind(18)]
    fn new_contract_d3() { new_contract(3); }

    // get_empty_leaves_indices == ascending { i < next_index | flags[i] == 0 }
    fn empty_indices_contract(d: usize) {
        // only flags and the mark are read by the function: nodes are left at a fixed value
        let cap = 1usize << d;
        let mut flags = vec![0u8; cap];
        let mut k = 0;
        while k < cap { flags[k] = kani::any(); k += 1; }
        let next_index: usize = kani::any();
        kani::assume(next_index <= cap);
        let t = FullMerkleTree::<TH> { depth: d, cached_nodes: Vec::new(), nodes: Vec::new(),
            cached_leaves_indices: flags, next_index, metadata: Vec::new() };
        let r = t.get_empty_leaves_indices();
        let mut expect = [0usize; MAXCAP];
        let mut n = 0;
        let mut k = 0;
        while k < cap {
            if k < t.next_index && t.cached_leaves_indices[k] == 0 { expect[n] = k; n += 1; }
            k += 1;
        }
        assert!(r.len() == n, "get_empty_leaves_indices/exactly-unset-below-mark-ascending");
        let mut k = 0;
        while k < cap {
            if k < n { assert!(r[k] == expect[k], "get_empty_leaves_indices/exactly-unset-below-mark-ascending"); }
            k += 1;
        }
    }
    #[kani::proof]
    #[kani::unwind(10)]
    fn empty_indices_d2() { empty_indices_contract(2); }
    #[kani::proof]
    #[kani::unwind(18)]
    fn empty_indices_d3() { empty_indices_contract(3); }

    // FullMerkleProof accessors (fold / map bodies) against the path view used by the Verus unit
    fn any_proof(len: usize) -> FullMerkleProof<TH> {
        let mut v = Vec::new();
        let mut k = 0;
        while k < len {
            let x = TFr(kani::any());
            if kani::any() { v.push(FullMerkleBranch::Left(x)); } else { v.push(FullMerkleBranch::Right(x)); }
            k += 1;
        }
        FullMerkleProof(v)
    }
    fn proof_accessors(maxlen: usize) {
        let len: usize = kani::any();
        kani::assume(len <= maxlen);
        let p = any_proof(len);
        let leaf = TFr(kani::any());
        // reference fold: bit 0 (Left) = current node is the left child
        let mut acc = leaf;
        let mut idx: usize = 0;
        let mut k = 0;
        let elems = p.get_path_elements();
        let bits = p.get_path_index();
        assert!(p.length() == len, "proof/length");
        assert!(elems.len() == len && bits.len() == len, "proof/accessor-lengths");
        while k < len {
            let (sib, bit) = match p.0[k] { FullMerkleBranch::Left(v) => (v, 0u8), FullMerkleBranch::Right(v) => (v, 1u8) };
            assert!(elems[k] == sib, "proof/get_path_elements-is-sibling-view");
            assert!(bits[k] == bit, "proof/get_path_index-is-direction-view");
            acc = if bit == 0 { TH::hash(&[acc, sib]) } else { TH::hash(&[sib, acc]) };
            idx |= (bit as usize) << k;
            k += 1;
        }
        assert!(p.compute_root_from(&leaf) == acc, "proof/compute_root_from-is-fold_path");
        assert!(p.leaf_index() == idx, "proof/leaf_index-decodes-lsb-first");
    }
    #[kani::proof]
    #[kani::unwind(5)]
    fn proof_accessors_len3() { proof_accessors(3); }
    #[kani::proof]
    #[kani::unwind(7)]
    fn proof_accessors_len5() { proof_accessors(5); }

    // leaf_index over long paths (depths up to 12): only the directions matter, so the elements are fixed
    #[kani::proof]
    #[kani::unwind(14)]
    fn full_leaf_index_len12() {
        let len: usize = kani::any();
        kani::assume(len <= 12);
        let mut v = Vec::new();
        let mut idx: usize = 0;
        let mut k = 0;
        while k < len {
            let right: bool = kani::any();
            if right { v.push(FullMerkleBranch::Right(TFr(0))); idx |= 1usize << k; } else { v.push(FullMerkleBranch::Left(TFr(0))); }
            k += 1;
        }
        let p = FullMerkleProof::<TH>(v);
        assert!(p.leaf_index() == idx, "leaf_index/decodes-lsb-first");
    }

    // ---- contract steps for the Verus-verified mutators (second opinion that does not depend on how the body is written;
    //      decides, within the bound, when a changed body can no longer be processed by Verus) ----
    // shapes (number of written leaves n, number of removal indices m) are concrete per harness to keep CBMC small;
    // start, the leaf values and the removal indices are symbolic (full usize domain)
    fn override_range_step(d: usize, n: usize, m: usize) {
        let cap = 1usize << d;
        let (mut t, leaves) = any_wf_tree(d);
        let old_flags = t.cached_leaves_indices.clone();
        let old_next = t.next_index;
        let old_nodes = t.nodes.clone();
        let start: usize = kani::any();
        let v0 = TFr(kani::any()); let v1 = TFr(kani::any());
        let r0: usize = kani::any(); let r1: usize = kani::any();
        let vals: Vec<TFr> = if n == 0 { vec![] } else if n == 1 { vec![v0] } else { vec![v0, v1] };
        let rm: Vec<usize> = if m == 0 { vec![] } else if m == 1 { vec![r0] } else { vec![r0, r1] };
        let va = [v0, v1]; let ra = [r0, r1];
        let r = t.override_range(start, vals.into_iter(), rm.into_iter());
        let mut in_range = !(start > cap || n > cap - start);
        let mut k = 0;
        while k < m { if ra[k] >= cap { in_range = false; } k += 1; }
        if !in_range {
            assert!(r.is_err(), "override_range/batch-rejected-changes-nothing");
            assert!(t.nodes == old_nodes && t.cached_leaves_indices == old_flags && t.next_index == old_next, "override_range/batch-rejected-changes-nothing");
        } else {
            assert!(r.is_ok(), "override_range/batch-in-range-accepted");
            let mut l = leaves;
            let mut f = [0u8; MAXCAP];
            let mut k = 0;
            while k < cap { f[k] = old_flags[k]; k += 1; }
            let mut k = 0;
            while k < m { l[ra[k]] = TFr(0); f[ra[k]] = 0; k += 1; }
            let mut k = 0;
            while k < n { l[start + k] = va[k]; f[start + k] = 1; k += 1; }
            assert!(t.nodes == ideal_nodes(d, &l), "override_range/batch-equals-reset-then-write");
            let mut k = 0;
            while k < cap { assert!(t.cached_leaves_indices[k] == f[k], "override_range/batch-marks-removed-empty-written-set"); k += 1; }
            let exp_next = if n > 0 { std::cmp::max(old_next, start + n) } else { old_next };
            assert!(t.next_index == exp_next, "override_range/batch-high-water-mark");
        }
    }
    #[kani::proof]
    #[kani::unwind(6)]
    fn override_range_d1_w1_r2() { override_range_step(1, 1, 2); }
    #[kani::proof]
    #[kani::unwind(10)]
    fn override_range_d2_w2_r1() { override_range_step(2, 2, 1); }
    #[kani::proof]
    #[kani::unwind(10)]
    fn override_range_d2_w1_r2() { override_range_step(2, 1, 2); }
    #[kani::proof]
    #[kani::unwind(10)]
    fn override_range_d2_w0_r2() { override_range_step(2, 0, 2); }

    fn set_step(d: usize) {
        let cap = 1usize << d;
        let (mut t, leaves) = any_wf_tree(d);
        let old = t.clone();
        let i: usize = kani::any();
        let v = TFr(kani::any());
        let r = t.set(i, v);
        if i >= cap { assert!(r.is_err() && t == old, "set/set-rejected-changes-nothing"); }
        else {
            let mut l = leaves; l[i] = v;
            assert!(r.is_ok() && t.nodes == ideal_nodes(d, &l), "set/set-writes-exactly-one-leaf");
            assert!(t.next_index == std::cmp::max(old.next_index, i + 1), "set/set-high-water-mark");
            let mut k = 0;
            while k < cap { assert!(t.cached_leaves_indices[k] == (if k == i { 1 } else { old.cached_leaves_indices[k] }), "set/set-marks-written"); k += 1; }
        }
    }
    fn delete_step(d: usize) {
        let cap = 1usize << d;
        let (mut t, leaves) = any_wf_tree(d);
        let old = t.clone();
        let i: usize = kani::any();
        let r = t.delete(i);
        assert!(r.is_ok(), "delete/no-error");
        if i < old.next_index {
            let mut l = leaves; l[i] = TFr(0);
            assert!(t.nodes == ideal_nodes(d, &l) && t.next_index == old.next_index, "delete/delete-resets-leaf");
            let mut k = 0;
            while k < cap { assert!(t.cached_leaves_indices[k] == (if k == i { 0 } else { old.cached_leaves_indices[k] }), "delete/delete-marks-empty"); k += 1; }
        } else { assert!(t == old, "delete/delete-beyond-mark-is-noop"); }
    }
    fn update_next_step(d: usize) {
        let cap = 1usize << d;
        let (mut t, leaves) = any_wf_tree(d);
        let old = t.clone();
        let v = TFr(kani::any());
        let r = t.update_next(v);
        if old.next_index >= cap { assert!(r.is_err() && t == old, "update_next/append-full-tree-rejected"); }
        else {
            let mut l = leaves; l[old.next_index] = v;
            assert!(r.is_ok() && t.nodes == ideal_nodes(d, &l) && t.next_index == old.next_index + 1, "update_next/append-writes-at-high-water-mark");
            assert!(t.cached_leaves_indices[old.next_index] == 1, "update_next/append-marks-written");
        }
    }
    #[kani::proof]
    #[kani::unwind(10)]
    fn set_step_d2() { set_step(2); }
    #[kani::proof]
    #[kani::unwind(10)]
    fn delete_step_d2() { delete_step(2); }
    #[kani::proof]
    #[kani::unwind(10)]
    fn update_next_step_d2() { update_next_step(2); }

    // read-only observers against the ideal tree (second opinion for the Verus-verified proof / verify / get / get_subtree_root)
    fn observers_step(d: usize) {
        let cap = 1usize << d;
        let (t, leaves) = any_wf_tree(d);
        let ideal = ideal_nodes(d, &leaves);
        let i: usize = kani::any();
        // get
        let g = t.get(i);
        if i >= cap { assert!(g.is_err(), "get/get-rejects-out-of-range"); } else { assert!(g.unwrap() == leaves[i], "get/get-returns-leaf"); }
        assert!(t.root() == ideal[0], "root/root-is-ideal-root");
        // get_subtree_root
        let n: usize = kani::any();
        let s = t.get_subtree_root(n, i);
        if n > d || i >= cap { assert!(s.is_err(), "get_subtree_root/subtree-root-rejects-out-of-range"); }
        else { assert!(s.unwrap() == ideal[(1usize << n) - 1 + (i >> (d - n))], "get_subtree_root/subtree-root-is-ideal-node"); }
        // proof + verify
        let p = t.proof(i);
        if i >= cap { assert!(p.is_err(), "proof/proof-rejects-out-of-range"); }
        else {
            let p = p.unwrap();
            assert!(p.0.len() == d, "proof/proof-one-sibling-per-level");
            let mut k = 0;
            while k < d {
                let j = i >> k;
                let sib = ideal[(1usize << (d - k)) - 1 + (j ^ 1)];
                let ok = match p.0[k] { FullMerkleBranch::Left(v) => j & 1 == 0 && v == sib, FullMerkleBranch::Right(v) => j & 1 == 1 && v == sib };
                assert!(ok, "proof/proof-is-ideal-path");
                k += 1;
            }
            assert!(t.verify(&leaves[i], &p).unwrap(), "verify/verify-accepts-the-stored-leaf");
            // an altered sibling is accepted only if it folds to the same root
            let mut q = p.clone();
            let lvl: usize = kani::any();
            kani::assume(lvl < d);
            let alt = TFr(kani::any());
            q.0[lvl] = match q.0[lvl] { FullMerkleBranch::Left(_) => FullMerkleBranch::Left(alt), FullMerkleBranch::Right(_) => FullMerkleBranch::Right(alt) };
            let acc = t.verify(&leaves[i], &q).unwrap();
            assert!(acc == (q.compute_root_from(&leaves[i]) == ideal[0]), "verify/verify-accepts-iff-path-folds-to-root");
        }
    }
    #[kani::proof]
    #[kani::unwind(10)]
    fn observers_step_d2() { observers_step(2); }
}
