// Appended to utils/src/merkle_tree/optimal_merkle_tree.rs of a scratch copy of /repo (never committed there).
// DECLARED SUBSTITUTION (units.json "source_subst", listed in the evidence): the line `use std::collections::HashMap;` of the
// scratch copy is replaced by `use self::verif_map::HashMap;` — std's SwissTable (SIMD group probing, RandomState) is out of
// CBMC's reach, see DESIGN appendix.  `verif_map::HashMap` below is a fixed-slot association list with the three operations the file
// uses (with_capacity / insert / get).  ASSUMED(std): std::collections::HashMap behaves as a finite map under these operations
// (the same assumption the Verus unit `optimal_tree` makes through vstd's HashMap model).  Every function body of the real
// file is compiled unchanged.
//
// Every harness is an inductive step from an ARBITRARY well-formed tree of the stated depth (symbolic leaves, flags, mark,
// symbolic presence of every node whose value equals the cached default), so a pass covers every history leading to such a
// state.  The depth / shape bound makes these BOUNDED checks; they are reported as bounded, never as proved.
#[cfg(kani)]
mod verif_map {
    pub const SLOTS: usize = 32;
    #[derive(Clone, Debug)]
    pub struct HashMap<K, V> {
        // fixed slots + concrete fill count (a Vec's length is not constant-propagated by CBMC through its growth path);
        // (key, value, live): a dead entry is an absent key, which keeps the fill count concrete when presence is symbolic
        pub ents: [Option<(K, V, bool)>; SLOTS],
        pub n: usize,
    }
    impl<K: PartialEq + Copy, V: Copy + PartialEq> HashMap<K, V> {
        pub fn with_capacity(_n: usize) -> Self { HashMap { ents: [None; SLOTS], n: 0 } }
        pub fn verif_push(&mut self, k: K, v: V, live: bool) {
            assert!(self.n < SLOTS);
            self.ents[self.n] = Some((k, v, live));
            self.n += 1;
        }
        pub fn insert(&mut self, k: K, v: V) -> Option<V> {
            let mut i = 0;
            while i < self.n {
                if let Some((ek, ev, live)) = self.ents[i] {
                    if ek == k {
                        self.ents[i] = Some((k, v, true));
                        return if live { Some(ev) } else { None };
                    }
                }
                i += 1;
            }
            self.verif_push(k, v, true);
            None
        }
        pub fn get(&self, k: &K) -> Option<&V> {
            let mut i = 0;
            while i < self.n {
                if let Some((ek, ev, live)) = &self.ents[i] {
                    if *ek == *k && *live { return Some(ev); }
                }
                i += 1;
            }
            None
        }
    }
    // extensional equality, as std's
    impl<K: PartialEq + Copy, V: Copy + PartialEq> PartialEq for HashMap<K, V> {
        fn eq(&self, o: &Self) -> bool {
            let mut i = 0;
            while i < self.n {
                if let Some((k, v, true)) = &self.ents[i] { if o.get(k) != Some(v) { return false; } }
                i += 1;
            }
            let mut i = 0;
            while i < o.n {
                if let Some((k, v, true)) = &o.ents[i] { if self.get(k) != Some(v) { return false; } }
                i += 1;
            }
            true
        }
    }
    impl<K: PartialEq + Copy, V: Copy + PartialEq> Eq for HashMap<K, V> {}
}

#[cfg(kani)]
mod verif_kani {
    use super::*;

    #[derive(Clone, Copy, PartialEq, Eq, Debug, Default)]
    pub struct TFr(pub u8);
    impl std::fmt::Display for TFr {
        fn fmt(&self, _f: &mut std::fmt::Formatter<'_>) -> std::fmt::Result { Ok(()) }
    }
    impl FromStr for TFr {
        type Err = ();
        fn from_str(_s: &str) -> std::result::Result<Self, ()> { Err(()) }
    }
    #[derive(Clone, Copy, PartialEq, Eq, Debug)]
    pub struct TH;
    impl Hasher for TH {
        type Fr = TFr;
        fn default_leaf() -> TFr { TFr(0) }
        // non-linear toy mix; the contracts compare against the ideal tree built with the same function
        fn hash(i: &[TFr]) -> TFr {
            TFr(i[0].0.wrapping_mul(31).wrapping_add(i[1].0.wrapping_mul(17)).wrapping_add(i[0].0 & i[1].0).wrapping_add(7))
        }
    }

    const MAXCAP: usize = 8;
    const PER_NODE_PRESENCE: bool = false;

    // heap order: node (level l, index i) at (1 << l) - 1 + i
    fn ideal_nodes(d: usize, leaves: &[TFr; MAXCAP]) -> Vec<TFr> {
        let cap = 1usize << d;
        let mut nodes = vec![TFr(0); 2 * cap - 1];
        let mut k = 0;
        while k < cap {
            nodes[cap - 1 + k] = leaves[k];
            k += 1;
        }
        let mut i = cap - 1;
        while i > 0 {
            i -= 1;
            nodes[i] = TH::hash(&[nodes[2 * i + 1], nodes[2 * i + 2]]);
        }
        nodes
    }

    fn default_nodes(d: usize) -> Vec<TFr> {
        // cached_nodes[l] = root of an all-default subtree whose root sits at level l
        let mut c = vec![TFr(0); d + 1];
        let mut l = d;
        while l > 0 {
            c[l - 1] = TH::hash(&[c[l], c[l]]);
            l -= 1;
        }
        c
    }

    // an arbitrary well-formed OptimalMerkleTree of depth d (the `wf` of specs/optimal_tree.rs.in): every node is either
    // stored with its ideal value or absent while its ideal value equals the cached default of its level
    fn any_wf_tree(d: usize) -> (OptimalMerkleTree<TH>, [TFr; MAXCAP]) { any_wf_tree_m(d, None) }
    // `mark`: None = symbolic high-water mark; Some(m) = concrete (needed where the mark becomes a write position)
    fn any_wf_tree_m(d: usize, mark: Option<usize>) -> (OptimalMerkleTree<TH>, [TFr; MAXCAP]) {
        let cap = 1usize << d;
        let mut leaves = [TFr(0); MAXCAP];
        let next_index: usize = match mark { Some(m) => m, None => kani::any() };
        kani::assume(next_index <= cap);
        let mut k = 0;
        while k < cap {
            leaves[k] = if k < next_index { TFr(kani::any()) } else { TFr(0) };
            k += 1;
        }
        let ideal = ideal_nodes(d, &leaves);
        let cached = default_nodes(d);
        // presence of default-valued nodes: per node (2^nodes combinations, expensive) or one symbolic choice for all of them
        let per_node = PER_NODE_PRESENCE;
        let all_stored: bool = kani::any();
        let mut map = HashMap::with_capacity(0);
        let mut l = 0;
        while l <= d {
            let mut i = 0;
            while i < (1usize << l) {
                let v = ideal[(1usize << l) - 1 + i];
                let stored: bool = if per_node { kani::any() } else { all_stored };
                let live = stored || v != cached[l];
                map.verif_push((l, i), if live { v } else { TFr(kani::any()) }, live);
                i += 1;
            }
            l += 1;
        }
        let mut flags = vec![0u8; cap];
        let mut k = 0;
        while k < cap {
            flags[k] = if k < next_index { kani::any() } else { 0 };
            k += 1;
        }
        let t = OptimalMerkleTree::<TH> {
            depth: d,
            cached_nodes: cached,
            nodes: map,
            cached_leaves_indices: flags,
            next_index,
            metadata: Vec::new(),
        };
        (t, leaves)
    }

    // the observable node view in heap order (absent => cached default, through the real get_node)
    fn view(t: &OptimalMerkleTree<TH>, d: usize) -> Vec<TFr> {
        let cap = 1usize << d;
        let mut v = vec![TFr(0); 2 * cap - 1];
        let mut l = 0;
        while l <= d {
            let mut i = 0;
            while i < (1usize << l) {
                v[(1usize << l) - 1 + i] = t.get_node(l, i);
                i += 1;
            }
            l += 1;
        }
        v
    }

    #[kani::proof]
    #[kani::unwind(10)]
    fn generator_is_wf_d2() {
        // vocabulary check: the generated state's view is the ideal tree of its leaves (so the steps below start from wf states)
        let (t, leaves) = any_wf_tree(2);
        assert!(view(&t, 2) == ideal_nodes(2, &leaves), "vocabulary/generated-state-is-ideal");
        kani::cover!(t.next_index == 3, "vocabulary/reachable");
    }

    // contract of OptimalMerkleTree::set_range as ASSUMED by the Verus unit (specs/optimal_tree.rs.in)
    fn set_range_one(d: usize, n: usize, start: usize) {
        let cap = 1usize << d;
        let (mut t, leaves) = any_wf_tree(d);
        let old_flags = t.cached_leaves_indices.clone();
        let old_next = t.next_index;
        let va = [TFr(kani::any()), TFr(kani::any()), TFr(kani::any()), TFr(kani::any()), TFr(kani::any())];
        let vals: Vec<TFr> = va[..n].to_vec();
        let r = t.set_range(start, vals.into_iter());
        let out_of_range = start > cap || n > cap - start;
        if out_of_range {
            assert!(r.is_err(), "set_range/rejects-out-of-range");
            assert!(view(&t, d) == ideal_nodes(d, &leaves) && t.cached_leaves_indices == old_flags && t.next_index == old_next, "set_range/rejected-changes-nothing");
        } else {
            assert!(r.is_ok(), "set_range/accepts-in-range");
            let mut l = leaves;
            let mut k = 0;
            while k < n { l[start + k] = va[k]; k += 1; }
            assert!(view(&t, d) == ideal_nodes(d, &l), "set_range/nodes-equal-ideal-tree");
            let mut k = 0;
            while k < cap {
                let expect = if start <= k && k < start + n { 1u8 } else { old_flags[k] };
                assert!(t.cached_leaves_indices[k] == expect, "set_range/flags-written-range");
                k += 1;
            }
            let exp_next = if n > 0 { std::cmp::max(old_next, start + n) } else { old_next };
            assert!(t.next_index == exp_next, "set_range/high-water-mark");
            assert!(t.depth == d && t.metadata.is_empty(), "set_range/frame");
        }
    }
    // `start` is concrete per call (a symbolic start makes the trip count of update_hashes' flattened loop symbolic, which CBMC
    // cannot bound); every start position of the tree, the first two beyond it and usize::MAX are enumerated

    fn override_range_one(d: usize, n: usize, m: usize, start: usize, ra: [usize; 2]) { override_range_one_m(d, n, m, start, ra, None) }
    // `mark`: Some(k) fixes the high-water mark (delete's `index < next_index` guard is then concrete, which keeps CBMC small)
    fn override_range_one_m(d: usize, n: usize, m: usize, start: usize, ra: [usize; 2], mark: Option<usize>) {
        let cap = 1usize << d;
        let (mut t, leaves) = any_wf_tree_m(d, mark);
        let old_flags = t.cached_leaves_indices.clone();
        let old_next = t.next_index;
        let va = [TFr(kani::any()), TFr(kani::any())];
        let vals: Vec<TFr> = va[..n].to_vec();
        let rm: Vec<usize> = ra[..m].to_vec();
        let r = t.override_range(start, vals.into_iter(), rm.into_iter());
        let mut in_range = !(start > cap || n > cap - start);
        let mut k = 0;
        while k < m { if ra[k] >= cap { in_range = false; } k += 1; }
        if !in_range {
            assert!(r.is_err(), "override_range/batch-rejected-changes-nothing");
            assert!(view(&t, d) == ideal_nodes(d, &leaves) && t.cached_leaves_indices == old_flags && t.next_index == old_next, "override_range/batch-rejected-changes-nothing");
        } else {
            assert!(r.is_ok(), "override_range/batch-in-range-accepted");
            let mut l = leaves;
            let mut f = [0u8; MAXCAP];
            let mut k = 0;
            while k < cap { f[k] = old_flags[k]; k += 1; }
            // removal resets positions below the mark (positions at or above it already hold the default and no flag)
            let mut k = 0;
            while k < m { l[ra[k]] = TFr(0); f[ra[k]] = 0; k += 1; }
            let mut k = 0;
            while k < n { l[start + k] = va[k]; f[start + k] = 1; k += 1; }
            assert!(view(&t, d) == ideal_nodes(d, &l), "override_range/batch-equals-reset-then-write");
            let mut k = 0;
            while k < cap { assert!(t.cached_leaves_indices[k] == f[k], "override_range/batch-marks-removed-empty-written-set"); k += 1; }
            let exp_next = if n > 0 { std::cmp::max(old_next, start + n) } else { old_next };
            assert!(t.next_index == exp_next, "override_range/batch-high-water-mark");
        }
    }

    fn set_one(d: usize, i: usize) {
        let cap = 1usize << d;
        let (mut t, leaves) = any_wf_tree(d);
        let old_flags = t.cached_leaves_indices.clone();
        let old_next = t.next_index;
        let v = TFr(kani::any());
        let r = t.set(i, v);
        if i >= cap {
            assert!(r.is_err() && view(&t, d) == ideal_nodes(d, &leaves) && t.cached_leaves_indices == old_flags && t.next_index == old_next, "set/set-rejected-changes-nothing");
        } else {
            let mut l = leaves; l[i] = v;
            assert!(r.is_ok() && view(&t, d) == ideal_nodes(d, &l), "set/set-writes-exactly-one-leaf");
            assert!(t.next_index == std::cmp::max(old_next, i + 1), "set/set-high-water-mark");
            let mut k = 0;
            while k < cap { assert!(t.cached_leaves_indices[k] == (if k == i { 1 } else { old_flags[k] }), "set/set-marks-written"); k += 1; }
        }
    }
    fn delete_one(d: usize, i: usize) {
        let cap = 1usize << d;
        let (mut t, leaves) = any_wf_tree(d);
        let old_flags = t.cached_leaves_indices.clone();
        let old_next = t.next_index;
        let r = t.delete(i);
        assert!(r.is_ok(), "delete/no-error");
        if i < old_next {
            let mut l = leaves; l[i] = TFr(0);
            assert!(view(&t, d) == ideal_nodes(d, &l) && t.next_index == old_next, "delete/delete-resets-leaf");
            let mut k = 0;
            while k < cap { assert!(t.cached_leaves_indices[k] == (if k == i { 0 } else { old_flags[k] }), "delete/delete-marks-empty"); k += 1; }
        } else {
            assert!(view(&t, d) == ideal_nodes(d, &leaves) && t.cached_leaves_indices == old_flags && t.next_index == old_next, "delete/delete-beyond-mark-is-noop");
        }
    }
    fn update_next_one(d: usize, mark: usize) {
        let cap = 1usize << d;
        let (mut t, leaves) = any_wf_tree_m(d, Some(mark));
        let old_flags = t.cached_leaves_indices.clone();
        let old_next = t.next_index;
        let v = TFr(kani::any());
        let r = t.update_next(v);
        if old_next >= cap {
            assert!(r.is_err() && view(&t, d) == ideal_nodes(d, &leaves) && t.cached_leaves_indices == old_flags && t.next_index == old_next, "update_next/append-full-tree-rejected");
        } else {
            let mut l = leaves; l[old_next] = v;
            assert!(r.is_ok() && view(&t, d) == ideal_nodes(d, &l) && t.next_index == old_next + 1, "update_next/append-writes-at-high-water-mark");
            let mut k = 0;
            while k < cap { assert!(t.cached_leaves_indices[k] == (if k == old_next { 1 } else { old_flags[k] }), "update_next/append-marks-written"); k += 1; }
        }
    }

    fn new_contract(d: usize) {
        let init = TFr(kani::any());
        let t = OptimalMerkleTree::<TH>::new(d, init, OptimalMerkleConfig::default()).unwrap();
        let cap = 1usize << d;
        let mut leaves = [TFr(0); MAXCAP];
        let mut k = 0;
        while k < cap { leaves[k] = init; k += 1; }
        assert!(view(&t, d) == ideal_nodes(d, &leaves), "new/nodes-equal-ideal-default-tree");
        assert!(t.depth == d && t.next_index == 0, "new/mark-zero");
        assert!(t.cached_leaves_indices.len() == cap, "new/flags-len");
        let mut k = 0;
        while k < cap { assert!(t.cached_leaves_indices[k] == 0, "new/flags-zero"); k += 1; }
    }

    // observers + compute_root against the ideal tree
    fn observers_one(d: usize, i: usize) {
        let cap = 1usize << d;
        let (mut t, leaves) = any_wf_tree(d);
        let ideal = ideal_nodes(d, &leaves);
        let old_flags = t.cached_leaves_indices.clone();
        let old_next = t.next_index;
        let g = t.get(i);
        if i >= cap { assert!(g.is_err(), "get/get-rejects-out-of-range"); } else { assert!(g.unwrap() == leaves[i], "get/get-returns-leaf"); }
        assert!(t.root() == ideal[0], "root/root-is-ideal-root");
        let n: usize = kani::any();
        let s = t.get_subtree_root(n, i);
        if n > d || i >= cap { assert!(s.is_err(), "get_subtree_root/subtree-root-rejects-out-of-range"); }
        else { assert!(s.unwrap() == ideal[(1usize << n) - 1 + (i >> (d - n))], "get_subtree_root/subtree-root-is-ideal-node"); }
        let p = t.proof(i);
        if i >= cap { assert!(p.is_err(), "proof/proof-rejects-out-of-range"); }
        else {
            let p = p.unwrap();
            assert!(p.0.len() == d, "proof/proof-one-sibling-per-level");
            let mut k = 0;
            while k < d {
                let j = i >> k;
                let sib = ideal[(1usize << (d - k)) - 1 + (j ^ 1)];
                assert!(p.0[k].0 == sib && p.0[k].1 as usize == (j & 1), "proof/proof-is-ideal-path");
                k += 1;
            }
            assert!(t.verify(&leaves[i], &p).unwrap(), "verify/verify-accepts-the-stored-leaf");
            let mut q = p.clone();
            let lvl: usize = kani::any();
            kani::assume(lvl < d);
            q.0[lvl].0 = TFr(kani::any());
            let acc = t.verify(&leaves[i], &q).unwrap();
            assert!(acc == (q.compute_root_from(&leaves[i]) == ideal[0]), "verify/verify-accepts-iff-path-folds-to-root");
        }
        // compute_root returns the ideal root and leaves the observable tree (nodes, flags, mark) unchanged
        let r = t.compute_root();
        assert!(r.is_ok() && r.unwrap() == ideal[0], "compute_root/returns-ideal-root");
        assert!(view(&t, d) == ideal, "compute_root/nodes-unchanged");
        assert!(t.cached_leaves_indices == old_flags && t.next_index == old_next, "compute_root/flags-and-mark-unchanged");
    }

    // ---- GENERATED by tools/mk_optimal_kani.py: one concrete shape per harness (several shapes in one harness made the single
    //      SAT query super-linearly harder: 3 shapes = 1588 s, the same 3 shapes separately = 68 + 68 + 23 s) ----
    //@@GENERATED-BEGIN
    #[kani::proof]
    #[kani::unwind(10)]
    fn sr_d2_w0_s0() { set_range_one(2, 0, 0); }
    #[kani::proof]
    #[kani::unwind(10)]
    fn sr_d2_w0_s1() { set_range_one(2, 0, 1); }
    #[kani::proof]
    #[kani::unwind(10)]
    fn sr_d2_w0_s2() { set_range_one(2, 0, 2); }
    #[kani::proof]
    #[kani::unwind(10)]
    fn sr_d2_w0_s3() { set_range_one(2, 0, 3); }
    #[kani::proof]
    #[kani::unwind(10)]
    fn sr_d2_w0_s4() { set_range_one(2, 0, 4); }
    #[kani::proof]
    #[kani::unwind(10)]
    fn sr_d2_w0_s5() { set_range_one(2, 0, 5); }
    #[kani::proof]
    #[kani::unwind(10)]
    fn sr_d2_w0_smax() { set_range_one(2, 0, usize::MAX); }
    #[kani::proof]
    #[kani::unwind(10)]
    fn sr_d2_w1_s0() { set_range_one(2, 1, 0); }
    #[kani::proof]
    #[kani::unwind(10)]
    fn sr_d2_w1_s1() { set_range_one(2, 1, 1); }
    #[kani::proof]
    #[kani::unwind(10)]
    fn sr_d2_w1_s2() { set_range_one(2, 1, 2); }
    #[kani::proof]
    #[kani::unwind(10)]
    fn sr_d2_w1_s3() { set_range_one(2, 1, 3); }
    #[kani::proof]
    #[kani::unwind(10)]
    fn sr_d2_w1_s4() { set_range_one(2, 1, 4); }
    #[kani::proof]
    #[kani::unwind(10)]
    fn sr_d2_w1_s5() { set_range_one(2, 1, 5); }
    #[kani::proof]
    #[kani::unwind(10)]
    fn sr_d2_w1_smax() { set_range_one(2, 1, usize::MAX); }
    #[kani::proof]
    #[kani::unwind(10)]
    fn sr_d2_w2_s0() { set_range_one(2, 2, 0); }
    #[kani::proof]
    #[kani::unwind(10)]
    fn sr_d2_w2_s1() { set_range_one(2, 2, 1); }
    #[kani::proof]
    #[kani::unwind(10)]
    fn sr_d2_w2_s2() { set_range_one(2, 2, 2); }
    #[kani::proof]
    #[kani::unwind(10)]
    fn sr_d2_w2_s3() { set_range_one(2, 2, 3); }
    #[kani::proof]
    #[kani::unwind(10)]
    fn sr_d2_w2_s4() { set_range_one(2, 2, 4); }
    #[kani::proof]
    #[kani::unwind(10)]
    fn sr_d2_w2_s5() { set_range_one(2, 2, 5); }
    #[kani::proof]
    #[kani::unwind(10)]
    fn sr_d2_w2_smax() { set_range_one(2, 2, usize::MAX); }
    #[kani::proof]
    #[kani::unwind(10)]
    fn sr_d2_w3_s0() { set_range_one(2, 3, 0); }
    #[kani::proof]
    #[kani::unwind(10)]
    fn sr_d2_w3_s1() { set_range_one(2, 3, 1); }
    #[kani::proof]
    #[kani::unwind(10)]
    fn sr_d2_w3_s2() { set_range_one(2, 3, 2); }
    #[kani::proof]
    #[kani::unwind(10)]
    fn sr_d2_w3_s3() { set_range_one(2, 3, 3); }
    #[kani::proof]
    #[kani::unwind(10)]
    fn sr_d2_w3_s4() { set_range_one(2, 3, 4); }
    #[kani::proof]
    #[kani::unwind(10)]
    fn sr_d2_w3_s5() { set_range_one(2, 3, 5); }
    #[kani::proof]
    #[kani::unwind(10)]
    fn sr_d2_w3_smax() { set_range_one(2, 3, usize::MAX); }
    #[kani::proof]
    #[kani::unwind(10)]
    fn sr_d2_w4_s0() { set_range_one(2, 4, 0); }
    #[kani::proof]
    #[kani::unwind(10)]
    fn sr_d2_w4_s1() { set_range_one(2, 4, 1); }
    #[kani::proof]
    #[kani::unwind(10)]
    fn sr_d2_w4_s2() { set_range_one(2, 4, 2); }
    #[kani::proof]
    #[kani::unwind(10)]
    fn sr_d2_w4_s3() { set_range_one(2, 4, 3); }
    #[kani::proof]
    #[kani::unwind(10)]
    fn sr_d2_w4_s4() { set_range_one(2, 4, 4); }
    #[kani::proof]
    #[kani::unwind(10)]
    fn sr_d2_w4_s5() { set_range_one(2, 4, 5); }
    #[kani::proof]
    #[kani::unwind(10)]
    fn sr_d2_w4_smax() { set_range_one(2, 4, usize::MAX); }
    #[kani::proof]
    #[kani::unwind(10)]
    fn sr_d2_w5_s0() { set_range_one(2, 5, 0); }
    #[kani::proof]
    #[kani::unwind(10)]
    fn sr_d2_w5_s1() { set_range_one(2, 5, 1); }
    #[kani::proof]
    #[kani::unwind(10)]
    fn sr_d2_w5_s2() { set_range_one(2, 5, 2); }
    #[kani::proof]
    #[kani::unwind(10)]
    fn sr_d2_w5_s3() { set_range_one(2, 5, 3); }
    #[kani::proof]
    #[kani::unwind(10)]
    fn sr_d2_w5_s4() { set_range_one(2, 5, 4); }
    #[kani::proof]
    #[kani::unwind(10)]
    fn sr_d2_w5_s5() { set_range_one(2, 5, 5); }
    #[kani::proof]
    #[kani::unwind(10)]
    fn sr_d2_w5_smax() { set_range_one(2, 5, usize::MAX); }
    #[kani::proof]
    #[kani::unwind(18)]
    fn sr_d3_w3_s0() { set_range_one(3, 3, 0); }
    #[kani::proof]
    #[kani::unwind(18)]
    fn sr_d3_w3_s2() { set_range_one(3, 3, 2); }
    #[kani::proof]
    #[kani::unwind(18)]
    fn sr_d3_w3_s3() { set_range_one(3, 3, 3); }
    #[kani::proof]
    #[kani::unwind(18)]
    fn sr_d3_w3_s5() { set_range_one(3, 3, 5); }
    #[kani::proof]
    #[kani::unwind(18)]
    fn sr_d3_w3_s6() { set_range_one(3, 3, 6); }
    #[kani::proof]
    #[kani::unwind(18)]
    fn sr_d3_w5_s0() { set_range_one(3, 5, 0); }
    #[kani::proof]
    #[kani::unwind(18)]
    fn sr_d3_w5_s1() { set_range_one(3, 5, 1); }
    #[kani::proof]
    #[kani::unwind(18)]
    fn sr_d3_w5_s3() { set_range_one(3, 5, 3); }
    #[kani::proof]
    #[kani::unwind(18)]
    fn sr_d3_w5_s4() { set_range_one(3, 5, 4); }
    #[kani::proof]
    #[kani::unwind(18)]
    fn sr_d3_w8_s0() { set_range_one(3, 8, 0); }
    #[kani::proof]
    #[kani::unwind(18)]
    fn sr_d3_w2_s7() { set_range_one(3, 2, 7); }
    #[kani::proof]
    #[kani::unwind(10)]
    fn ov_d2_w2_r1_s0_i3() { override_range_one(2, 2, 1, 0, [3, 0]); }
    #[kani::proof]
    #[kani::unwind(10)]
    fn ov_d2_w2_r1_s2_i0() { override_range_one(2, 2, 1, 2, [0, 0]); }
    #[kani::proof]
    #[kani::unwind(10)]
    fn ov_d2_w2_r1_s1_i4() { override_range_one(2, 2, 1, 1, [4, 0]); }
    #[kani::proof]
    #[kani::unwind(10)]
    fn ov_d2_w1_r2_s1_i3_1() { override_range_one(2, 1, 2, 1, [3, 1]); }
    #[kani::proof]
    #[kani::unwind(10)]
    fn ov_d2_w1_r2_s3_i0_0() { override_range_one(2, 1, 2, 3, [0, 0]); }
    #[kani::proof]
    #[kani::unwind(10)]
    fn ov_d2_w0_r2_s4_i0_1() { override_range_one(2, 0, 2, 4, [0, 1]); }
    #[kani::proof]
    #[kani::unwind(10)]
    fn ov_d2_w0_r1_s5_i0() { override_range_one(2, 0, 1, 5, [0, 0]); }
    #[kani::proof]
    #[kani::unwind(10)]
    fn ov_d2_w2_r1_s0_i0() { override_range_one(2, 2, 1, 0, [0, 0]); }
    #[kani::proof]
    #[kani::unwind(10)]
    fn ov_d2_w2_r1_s0_i1() { override_range_one(2, 2, 1, 0, [1, 0]); }
    #[kani::proof]
    #[kani::unwind(10)]
    fn ov_d2_w2_r1_s0_i2() { override_range_one(2, 2, 1, 0, [2, 0]); }
    #[kani::proof]
    #[kani::unwind(10)]
    fn ov_d2_w2_r1_s0_i4() { override_range_one(2, 2, 1, 0, [4, 0]); }
    #[kani::proof]
    #[kani::unwind(10)]
    fn ov_d2_w2_r1_s1_i0() { override_range_one(2, 2, 1, 1, [0, 0]); }
    #[kani::proof]
    #[kani::unwind(10)]
    fn ov_d2_w2_r1_s1_i1() { override_range_one(2, 2, 1, 1, [1, 0]); }
    #[kani::proof]
    #[kani::unwind(10)]
    fn ov_d2_w2_r1_s1_i2() { override_range_one(2, 2, 1, 1, [2, 0]); }
    #[kani::proof]
    #[kani::unwind(10)]
    fn ov_d2_w2_r1_s1_i3() { override_range_one(2, 2, 1, 1, [3, 0]); }
    #[kani::proof]
    #[kani::unwind(10)]
    fn ov_d2_w2_r1_s2_i1() { override_range_one(2, 2, 1, 2, [1, 0]); }
    #[kani::proof]
    #[kani::unwind(10)]
    fn ov_d2_w2_r1_s2_i2() { override_range_one(2, 2, 1, 2, [2, 0]); }
    #[kani::proof]
    #[kani::unwind(10)]
    fn ov_d2_w2_r1_s2_i3() { override_range_one(2, 2, 1, 2, [3, 0]); }
    #[kani::proof]
    #[kani::unwind(10)]
    fn ov_d2_w2_r1_s2_i4() { override_range_one(2, 2, 1, 2, [4, 0]); }
    #[kani::proof]
    #[kani::unwind(10)]
    fn ov_d2_w2_r1_s3_i0() { override_range_one(2, 2, 1, 3, [0, 0]); }
    #[kani::proof]
    #[kani::unwind(10)]
    fn ov_d2_w2_r1_s3_i1() { override_range_one(2, 2, 1, 3, [1, 0]); }
    #[kani::proof]
    #[kani::unwind(10)]
    fn ov_d2_w2_r1_s3_i2() { override_range_one(2, 2, 1, 3, [2, 0]); }
    #[kani::proof]
    #[kani::unwind(10)]
    fn ov_d2_w2_r1_s3_i3() { override_range_one(2, 2, 1, 3, [3, 0]); }
    #[kani::proof]
    #[kani::unwind(10)]
    fn ov_d2_w2_r1_s3_i4() { override_range_one(2, 2, 1, 3, [4, 0]); }
    #[kani::proof]
    #[kani::unwind(10)]
    fn ov_d2_w2_r1_s4_i0() { override_range_one(2, 2, 1, 4, [0, 0]); }
    #[kani::proof]
    #[kani::unwind(10)]
    fn ov_d2_w2_r1_s4_i1() { override_range_one(2, 2, 1, 4, [1, 0]); }
    #[kani::proof]
    #[kani::unwind(10)]
    fn ov_d2_w2_r1_s4_i2() { override_range_one(2, 2, 1, 4, [2, 0]); }
    #[kani::proof]
    #[kani::unwind(10)]
    fn ov_d2_w2_r1_s4_i3() { override_range_one(2, 2, 1, 4, [3, 0]); }
    #[kani::proof]
    #[kani::unwind(10)]
    fn ov_d2_w2_r1_s4_i4() { override_range_one(2, 2, 1, 4, [4, 0]); }
    #[kani::proof]
    #[kani::unwind(10)]
    fn ov_d2_w1_r1_s0_i0() { override_range_one(2, 1, 1, 0, [0, 0]); }
    #[kani::proof]
    #[kani::unwind(10)]
    fn ov_d2_w1_r1_s0_i1() { override_range_one(2, 1, 1, 0, [1, 0]); }
    #[kani::proof]
    #[kani::unwind(10)]
    fn ov_d2_w1_r1_s0_i2() { override_range_one(2, 1, 1, 0, [2, 0]); }
    #[kani::proof]
    #[kani::unwind(10)]
    fn ov_d2_w1_r1_s0_i3() { override_range_one(2, 1, 1, 0, [3, 0]); }
    #[kani::proof]
    #[kani::unwind(10)]
    fn ov_d2_w1_r1_s0_i4() { override_range_one(2, 1, 1, 0, [4, 0]); }
    #[kani::proof]
    #[kani::unwind(10)]
    fn ov_d2_w1_r1_s0_imax() { override_range_one(2, 1, 1, 0, [usize::MAX, 0]); }
    #[kani::proof]
    #[kani::unwind(10)]
    fn ov_d2_w1_r1_s1_i0() { override_range_one(2, 1, 1, 1, [0, 0]); }
    #[kani::proof]
    #[kani::unwind(10)]
    fn ov_d2_w1_r1_s1_i1() { override_range_one(2, 1, 1, 1, [1, 0]); }
    #[kani::proof]
    #[kani::unwind(10)]
    fn ov_d2_w1_r1_s1_i2() { override_range_one(2, 1, 1, 1, [2, 0]); }
    #[kani::proof]
    #[kani::unwind(10)]
    fn ov_d2_w1_r1_s1_i3() { override_range_one(2, 1, 1, 1, [3, 0]); }
    #[kani::proof]
    #[kani::unwind(10)]
    fn ov_d2_w1_r1_s1_i4() { override_range_one(2, 1, 1, 1, [4, 0]); }
    #[kani::proof]
    #[kani::unwind(10)]
    fn ov_d2_w1_r1_s1_imax() { override_range_one(2, 1, 1, 1, [usize::MAX, 0]); }
    #[kani::proof]
    #[kani::unwind(10)]
    fn ov_d2_w1_r1_s2_i0() { override_range_one(2, 1, 1, 2, [0, 0]); }
    #[kani::proof]
    #[kani::unwind(10)]
    fn ov_d2_w1_r1_s2_i1() { override_range_one(2, 1, 1, 2, [1, 0]); }
    #[kani::proof]
    #[kani::unwind(10)]
    fn ov_d2_w1_r1_s2_i2() { override_range_one(2, 1, 1, 2, [2, 0]); }
    #[kani::proof]
    #[kani::unwind(10)]
    fn ov_d2_w1_r1_s2_i3() { override_range_one(2, 1, 1, 2, [3, 0]); }
    #[kani::proof]
    #[kani::unwind(10)]
    fn ov_d2_w1_r1_s2_i4() { override_range_one(2, 1, 1, 2, [4, 0]); }
    #[kani::proof]
    #[kani::unwind(10)]
    fn ov_d2_w1_r1_s2_imax() { override_range_one(2, 1, 1, 2, [usize::MAX, 0]); }
    #[kani::proof]
    #[kani::unwind(10)]
    fn ov_d2_w1_r1_s3_i0() { override_range_one(2, 1, 1, 3, [0, 0]); }
    #[kani::proof]
    #[kani::unwind(10)]
    fn ov_d2_w1_r1_s3_i1() { override_range_one(2, 1, 1, 3, [1, 0]); }
    #[kani::proof]
    #[kani::unwind(10)]
    fn ov_d2_w1_r1_s3_i2() { override_range_one(2, 1, 1, 3, [2, 0]); }
    #[kani::proof]
    #[kani::unwind(10)]
    fn ov_d2_w1_r1_s3_i3() { override_range_one(2, 1, 1, 3, [3, 0]); }
    #[kani::proof]
    #[kani::unwind(10)]
    fn ov_d2_w1_r1_s3_i4() { override_range_one(2, 1, 1, 3, [4, 0]); }
    #[kani::proof]
    #[kani::unwind(10)]
    fn ov_d2_w1_r1_s3_imax() { override_range_one(2, 1, 1, 3, [usize::MAX, 0]); }
    #[kani::proof]
    #[kani::unwind(10)]
    fn ov_d2_w1_r1_s4_i0() { override_range_one(2, 1, 1, 4, [0, 0]); }
    #[kani::proof]
    #[kani::unwind(10)]
    fn ov_d2_w1_r1_s4_i1() { override_range_one(2, 1, 1, 4, [1, 0]); }
    #[kani::proof]
    #[kani::unwind(10)]
    fn ov_d2_w1_r1_s4_i2() { override_range_one(2, 1, 1, 4, [2, 0]); }
    #[kani::proof]
    #[kani::unwind(10)]
    fn ov_d2_w1_r1_s4_i3() { override_range_one(2, 1, 1, 4, [3, 0]); }
    #[kani::proof]
    #[kani::unwind(10)]
    fn ov_d2_w1_r1_s4_i4() { override_range_one(2, 1, 1, 4, [4, 0]); }
    #[kani::proof]
    #[kani::unwind(10)]
    fn ov_d2_w1_r1_s4_imax() { override_range_one(2, 1, 1, 4, [usize::MAX, 0]); }
    #[kani::proof]
    #[kani::unwind(10)]
    fn ov_d2_w1_r1_smax_i0() { override_range_one(2, 1, 1, usize::MAX, [0, 0]); }
    #[kani::proof]
    #[kani::unwind(10)]
    fn ov_d2_w1_r1_smax_i1() { override_range_one(2, 1, 1, usize::MAX, [1, 0]); }
    #[kani::proof]
    #[kani::unwind(10)]
    fn ov_d2_w1_r1_smax_i2() { override_range_one(2, 1, 1, usize::MAX, [2, 0]); }
    #[kani::proof]
    #[kani::unwind(10)]
    fn ov_d2_w1_r1_smax_i3() { override_range_one(2, 1, 1, usize::MAX, [3, 0]); }
    #[kani::proof]
    #[kani::unwind(10)]
    fn ov_d2_w1_r1_smax_i4() { override_range_one(2, 1, 1, usize::MAX, [4, 0]); }
    #[kani::proof]
    #[kani::unwind(10)]
    fn ov_d2_w1_r1_smax_imax() { override_range_one(2, 1, 1, usize::MAX, [usize::MAX, 0]); }
    #[kani::proof]
    #[kani::unwind(10)]
    fn ov_d2_w1_r2_s0_i0_0() { override_range_one(2, 1, 2, 0, [0, 0]); }
    #[kani::proof]
    #[kani::unwind(10)]
    fn ov_d2_w1_r2_s0_i1_3() { override_range_one(2, 1, 2, 0, [1, 3]); }
    #[kani::proof]
    #[kani::unwind(10)]
    fn ov_d2_w1_r2_s0_i3_1() { override_range_one(2, 1, 2, 0, [3, 1]); }
    #[kani::proof]
    #[kani::unwind(10)]
    fn ov_d2_w1_r2_s0_i2_4() { override_range_one(2, 1, 2, 0, [2, 4]); }
    #[kani::proof]
    #[kani::unwind(10)]
    fn ov_d2_w1_r2_s0_i0_3() { override_range_one(2, 1, 2, 0, [0, 3]); }
    #[kani::proof]
    #[kani::unwind(10)]
    fn ov_d2_w1_r2_s1_i0_0() { override_range_one(2, 1, 2, 1, [0, 0]); }
    #[kani::proof]
    #[kani::unwind(10)]
    fn ov_d2_w1_r2_s1_i1_3() { override_range_one(2, 1, 2, 1, [1, 3]); }
    #[kani::proof]
    #[kani::unwind(10)]
    fn ov_d2_w1_r2_s1_i2_4() { override_range_one(2, 1, 2, 1, [2, 4]); }
    #[kani::proof]
    #[kani::unwind(10)]
    fn ov_d2_w1_r2_s1_i0_3() { override_range_one(2, 1, 2, 1, [0, 3]); }
    #[kani::proof]
    #[kani::unwind(10)]
    fn ov_d2_w1_r2_s3_i1_3() { override_range_one(2, 1, 2, 3, [1, 3]); }
    #[kani::proof]
    #[kani::unwind(10)]
    fn ov_d2_w1_r2_s3_i3_1() { override_range_one(2, 1, 2, 3, [3, 1]); }
    #[kani::proof]
    #[kani::unwind(10)]
    fn ov_d2_w1_r2_s3_i2_4() { override_range_one(2, 1, 2, 3, [2, 4]); }
    #[kani::proof]
    #[kani::unwind(10)]
    fn ov_d2_w1_r2_s3_i0_3() { override_range_one(2, 1, 2, 3, [0, 3]); }
    #[kani::proof]
    #[kani::unwind(10)]
    fn ov_d2_w1_r2_s4_i0_0() { override_range_one(2, 1, 2, 4, [0, 0]); }
    #[kani::proof]
    #[kani::unwind(10)]
    fn ov_d2_w1_r2_s4_i1_3() { override_range_one(2, 1, 2, 4, [1, 3]); }
    #[kani::proof]
    #[kani::unwind(10)]
    fn ov_d2_w1_r2_s4_i3_1() { override_range_one(2, 1, 2, 4, [3, 1]); }
    #[kani::proof]
    #[kani::unwind(10)]
    fn ov_d2_w1_r2_s4_i2_4() { override_range_one(2, 1, 2, 4, [2, 4]); }
    #[kani::proof]
    #[kani::unwind(10)]
    fn ov_d2_w1_r2_s4_i0_3() { override_range_one(2, 1, 2, 4, [0, 3]); }
    #[kani::proof]
    #[kani::unwind(10)]
    fn ov_d2_w0_r2_s0_i0_1() { override_range_one(2, 0, 2, 0, [0, 1]); }
    #[kani::proof]
    #[kani::unwind(10)]
    fn ov_d2_w0_r2_s0_i3_3() { override_range_one(2, 0, 2, 0, [3, 3]); }
    #[kani::proof]
    #[kani::unwind(10)]
    fn ov_d2_w0_r2_s0_i2_0() { override_range_one(2, 0, 2, 0, [2, 0]); }
    #[kani::proof]
    #[kani::unwind(10)]
    fn ov_d2_w0_r2_s0_i4_1() { override_range_one(2, 0, 2, 0, [4, 1]); }
    #[kani::proof]
    #[kani::unwind(10)]
    fn ov_d2_w0_r2_s4_i3_3() { override_range_one(2, 0, 2, 4, [3, 3]); }
    #[kani::proof]
    #[kani::unwind(10)]
    fn ov_d2_w0_r2_s4_i2_0() { override_range_one(2, 0, 2, 4, [2, 0]); }
    #[kani::proof]
    #[kani::unwind(10)]
    fn ov_d2_w0_r2_s4_i4_1() { override_range_one(2, 0, 2, 4, [4, 1]); }
    #[kani::proof]
    #[kani::unwind(10)]
    fn ov_d2_w0_r2_s5_i0_1() { override_range_one(2, 0, 2, 5, [0, 1]); }
    #[kani::proof]
    #[kani::unwind(10)]
    fn ov_d2_w0_r2_s5_i3_3() { override_range_one(2, 0, 2, 5, [3, 3]); }
    #[kani::proof]
    #[kani::unwind(10)]
    fn ov_d2_w0_r2_s5_i2_0() { override_range_one(2, 0, 2, 5, [2, 0]); }
    #[kani::proof]
    #[kani::unwind(10)]
    fn ov_d2_w0_r2_s5_i4_1() { override_range_one(2, 0, 2, 5, [4, 1]); }
    #[kani::proof]
    #[kani::unwind(10)]
    fn ov_d2_w1_r0_s0_inone() { override_range_one(2, 1, 0, 0, [0, 0]); }
    #[kani::proof]
    #[kani::unwind(10)]
    fn ov_d2_w1_r0_s2_inone() { override_range_one(2, 1, 0, 2, [0, 0]); }
    #[kani::proof]
    #[kani::unwind(10)]
    fn ov_d2_w1_r0_s4_inone() { override_range_one(2, 1, 0, 4, [0, 0]); }
    #[kani::proof]
    #[kani::unwind(10)]
    fn ov_d2_w1_r0_s5_inone() { override_range_one(2, 1, 0, 5, [0, 0]); }
    #[kani::proof]
    #[kani::unwind(10)]
    fn set_d2_i0() { set_one(2, 0); }
    #[kani::proof]
    #[kani::unwind(10)]
    fn del_d2_i0() { delete_one(2, 0); }
    #[kani::proof]
    #[kani::unwind(10)]
    fn obs_d2_i0() { observers_one(2, 0); }
    #[kani::proof]
    #[kani::unwind(10)]
    fn set_d2_i1() { set_one(2, 1); }
    #[kani::proof]
    #[kani::unwind(10)]
    fn del_d2_i1() { delete_one(2, 1); }
    #[kani::proof]
    #[kani::unwind(10)]
    fn obs_d2_i1() { observers_one(2, 1); }
    #[kani::proof]
    #[kani::unwind(10)]
    fn set_d2_i2() { set_one(2, 2); }
    #[kani::proof]
    #[kani::unwind(10)]
    fn del_d2_i2() { delete_one(2, 2); }
    #[kani::proof]
    #[kani::unwind(10)]
    fn obs_d2_i2() { observers_one(2, 2); }
    #[kani::proof]
    #[kani::unwind(10)]
    fn set_d2_i3() { set_one(2, 3); }
    #[kani::proof]
    #[kani::unwind(10)]
    fn del_d2_i3() { delete_one(2, 3); }
    #[kani::proof]
    #[kani::unwind(10)]
    fn obs_d2_i3() { observers_one(2, 3); }
    #[kani::proof]
    #[kani::unwind(10)]
    fn set_d2_i4() { set_one(2, 4); }
    #[kani::proof]
    #[kani::unwind(10)]
    fn del_d2_i4() { delete_one(2, 4); }
    #[kani::proof]
    #[kani::unwind(10)]
    fn obs_d2_i4() { observers_one(2, 4); }
    #[kani::proof]
    #[kani::unwind(10)]
    fn set_d2_i5() { set_one(2, 5); }
    #[kani::proof]
    #[kani::unwind(10)]
    fn del_d2_i5() { delete_one(2, 5); }
    #[kani::proof]
    #[kani::unwind(10)]
    fn obs_d2_i5() { observers_one(2, 5); }
    #[kani::proof]
    #[kani::unwind(10)]
    fn set_d2_imax() { set_one(2, usize::MAX); }
    #[kani::proof]
    #[kani::unwind(10)]
    fn del_d2_imax() { delete_one(2, usize::MAX); }
    #[kani::proof]
    #[kani::unwind(10)]
    fn obs_d2_imax() { observers_one(2, usize::MAX); }
    #[kani::proof]
    #[kani::unwind(10)]
    fn app_d2_m0() { update_next_one(2, 0); }
    #[kani::proof]
    #[kani::unwind(10)]
    fn app_d2_m1() { update_next_one(2, 1); }
    #[kani::proof]
    #[kani::unwind(10)]
    fn app_d2_m2() { update_next_one(2, 2); }
    #[kani::proof]
    #[kani::unwind(10)]
    fn app_d2_m3() { update_next_one(2, 3); }
    #[kani::proof]
    #[kani::unwind(10)]
    fn app_d2_m4() { update_next_one(2, 4); }
    #[kani::proof]
    #[kani::unwind(10)]
    fn new_contract_d2() { new_contract(2); }
    #[kani::proof]
    #[kani::unwind(18)]
    fn new_contract_d3() { new_contract(3); }
    //@@GENERATED-END
}
